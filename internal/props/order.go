package props

import (
	"fmt"
	"go/ast"
	"go/token"
	"go/types"
	"strings"

	"golang.org/x/tools/go/packages"

	"d2verif/internal/core"
)

// E5 — iteration-order leaks. Every `range` over a map is classified from the effects of its
// body: order-insensitive (commutative effects only), sorted-after (collected, then sorted before
// any other use), or leaking (anything else → must carry a reviewed reason or is a violation).

type mapRange struct {
	fi    *core.FuncInfo
	rs    *ast.RangeStmt
	class string // "insensitive", "sorted-after", "leak"
	why   string
}

type orderCtx struct {
	pk      *packages.Package
	info    *types.Info
	fi      *core.FuncInfo
	rs      *ast.RangeStmt
	keyObj  types.Object
	valObj  types.Object
	carried map[types.Object]bool // variables declared outside the loop and assigned inside it
	collect map[types.Object]bool // slices appended to
	mapKeys map[string]string     // map expression → key expression written in the body
	leaks   []string
}

func (oc *orderCtx) leak(format string, a ...any) { oc.leaks = append(oc.leaks, fmt.Sprintf(format, a...)) }

func (oc *orderCtx) declaredInside(o types.Object) bool {
	return o != nil && o.Pos() >= oc.rs.Pos() && o.Pos() <= oc.rs.End()
}

// mentionsCarried: does e read a variable that the loop itself updates (other than accumulators handled by the caller)?
func (oc *orderCtx) mentions(e ast.Node, set map[types.Object]bool, except types.Object) bool {
	found := false
	ast.Inspect(e, func(n ast.Node) bool {
		if id, ok := n.(*ast.Ident); ok {
			if o := oc.info.Uses[id]; o != nil && set[o] && o != except {
				found = true
			}
		}
		return true
	})
	return found
}

func isIntegerType(t types.Type) bool {
	b, ok := t.Underlying().(*types.Basic)
	return ok && b.Info()&types.IsInteger != 0
}

func isBoolType(t types.Type) bool {
	b, ok := t.Underlying().(*types.Basic)
	return ok && b.Kind() == types.Bool
}

func isMinMaxCall(info *types.Info, e ast.Expr) bool {
	call, ok := ast.Unparen(e).(*ast.CallExpr)
	if !ok {
		return false
	}
	if id, ok := call.Fun.(*ast.Ident); ok && (id.Name == "min" || id.Name == "max") {
		if _, isB := info.Uses[id].(*types.Builtin); isB {
			return true
		}
	}
	f := core.CalleeOf(info, call)
	if f == nil {
		return false
	}
	switch core.FuncName(f) {
	case "math.Max", "math.Min":
		return true
	}
	switch f.Name() {
	case "Max", "Min", "max", "min":
		sig := f.Type().(*types.Signature)
		if sig.Recv() == nil && sig.Params().Len() == 2 && sig.Results().Len() == 1 {
			if b, ok := sig.Results().At(0).Type().Underlying().(*types.Basic); ok && b.Info()&types.IsNumeric != 0 {
				return true
			}
			if _, ok := sig.Results().At(0).Type().(*types.TypeParam); ok {
				return true
			}
		}
	}
	return false
}

// keyEquality: cond is `k == x` / `x == k` for the loop's key variable (a lookup: at most one hit).
func (oc *orderCtx) keyEquality(cond ast.Expr) bool {
	be, ok := ast.Unparen(cond).(*ast.BinaryExpr)
	if !ok || be.Op != token.EQL || oc.keyObj == nil {
		return false
	}
	return core.ObjOf(oc.info, be.X) == oc.keyObj || core.ObjOf(oc.info, be.Y) == oc.keyObj
}

func (oc *orderCtx) stmts(list []ast.Stmt, underKeyEq bool) {
	for _, s := range list {
		oc.stmt(s, underKeyEq)
	}
}

func (oc *orderCtx) stmt(s ast.Stmt, underKeyEq bool) {
	info := oc.info
	switch x := s.(type) {
	case nil:
	case *ast.EmptyStmt, *ast.DeclStmt:
	case *ast.LabeledStmt:
		oc.stmt(x.Stmt, underKeyEq)
	case *ast.BlockStmt:
		oc.stmts(x.List, underKeyEq)
	case *ast.IncDecStmt:
		if !isIntegerType(info.TypeOf(x.X)) {
			oc.leak("non-integer ++/-- on %s", exprStr(x.X))
		}
	case *ast.AssignStmt:
		oc.assign(x, underKeyEq)
	case *ast.ExprStmt:
		call, ok := x.X.(*ast.CallExpr)
		if !ok {
			return
		}
		if id, ok := call.Fun.(*ast.Ident); ok {
			if _, isB := info.Uses[id].(*types.Builtin); isB && (id.Name == "delete" || id.Name == "panic") {
				return
			}
		}
		if underKeyEq {
			return // executed for at most one key
		}
		oc.leak("call %s(…) with possible side effects", exprStr(call.Fun))
	case *ast.IfStmt:
		oc.stmt(x.Init, underKeyEq)
		ke := underKeyEq || oc.keyEquality(x.Cond)
		oc.stmts(x.Body.List, ke)
		if x.Else != nil {
			oc.stmt(x.Else, underKeyEq)
		}
	case *ast.SwitchStmt:
		oc.stmt(x.Init, underKeyEq)
		for _, cl := range x.Body.List {
			oc.stmts(cl.(*ast.CaseClause).Body, underKeyEq)
		}
	case *ast.TypeSwitchStmt:
		for _, cl := range x.Body.List {
			oc.stmts(cl.(*ast.CaseClause).Body, underKeyEq)
		}
	case *ast.ForStmt:
		oc.stmt(x.Init, underKeyEq)
		oc.stmt(x.Post, underKeyEq)
		oc.stmts(x.Body.List, underKeyEq)
	case *ast.RangeStmt:
		oc.stmts(x.Body.List, underKeyEq)
	case *ast.BranchStmt:
		if x.Tok == token.BREAK && !underKeyEq {
			// break out of the map loop on a non-key condition: which element stops it depends on order
			if oc.breakTargetsMapLoop(x) {
				oc.leak("break on a condition other than key equality")
			}
		}
	case *ast.ReturnStmt:
		if underKeyEq {
			return
		}
		for _, r := range x.Results {
			if tv, ok := info.Types[r]; ok && (tv.Value != nil || tv.IsNil()) {
				continue
			}
			if id, ok := ast.Unparen(r).(*ast.Ident); ok {
				if o := info.Uses[id]; o != nil && !oc.declaredInside(o) && !oc.carried[o] {
					continue // loop-invariant value
				}
			}
			oc.leak("returns %s for the first element satisfying a non-key condition", exprStr(r))
		}
	case *ast.GoStmt, *ast.DeferStmt, *ast.SendStmt, *ast.SelectStmt:
		oc.leak("%T inside a map range", s)
	default:
		oc.leak("unclassified statement %T", s)
	}
}

func (oc *orderCtx) breakTargetsMapLoop(b *ast.BranchStmt) bool {
	// innermost enclosing for/range/switch/select of b within rs.Body
	var stack []ast.Node
	target := false
	ast.Inspect(oc.rs, func(n ast.Node) bool {
		if n == nil {
			stack = stack[:len(stack)-1]
			return true
		}
		stack = append(stack, n)
		if n == ast.Node(b) {
			for i := len(stack) - 2; i >= 0; i-- {
				switch stack[i].(type) {
				case *ast.ForStmt, *ast.SwitchStmt, *ast.TypeSwitchStmt, *ast.SelectStmt:
					return false
				case *ast.RangeStmt:
					target = stack[i] == ast.Node(oc.rs)
					return false
				}
			}
		}
		return true
	})
	if b.Label != nil {
		return true
	}
	return target
}

func (oc *orderCtx) assign(x *ast.AssignStmt, underKeyEq bool) {
	info := oc.info
	for i, l := range x.Lhs {
		var rhs ast.Expr
		if len(x.Rhs) == len(x.Lhs) {
			rhs = x.Rhs[i]
		} else if len(x.Rhs) == 1 {
			rhs = x.Rhs[0]
		}
		l = ast.Unparen(l)
		if id, ok := l.(*ast.Ident); ok && id.Name == "_" {
			continue
		}
		// local of the loop body
		if id, ok := l.(*ast.Ident); ok {
			o := core.ObjOf(info, id)
			if x.Tok == token.DEFINE && info.Defs[id] != nil {
				continue
			}
			if oc.declaredInside(o) {
				continue
			}
			if underKeyEq {
				continue
			}
			t := info.TypeOf(l)
			// x = append(x, …)
			if call, ok := ast.Unparen(rhs).(*ast.CallExpr); ok {
				if fid, ok := call.Fun.(*ast.Ident); ok && fid.Name == "append" && len(call.Args) >= 1 && core.ObjOf(info, call.Args[0]) == o {
					indep := true
					for _, a := range call.Args[1:] {
						if !isConst(info, a) {
							indep = false
						}
					}
					if !indep {
						oc.collect[o] = true
					}
					continue
				}
			}
			switch {
			case x.Tok == token.ADD_ASSIGN || x.Tok == token.SUB_ASSIGN || x.Tok == token.OR_ASSIGN || x.Tok == token.AND_ASSIGN || x.Tok == token.XOR_ASSIGN:
				if isIntegerType(t) || isBoolType(t) {
					continue
				}
				oc.leak("%s %s … on a %s (not commutative/associative bit-for-bit)", id.Name, x.Tok, t)
			case x.Tok == token.ASSIGN && isMinMaxCall(info, rhs) && oc.mentionsObj(rhs, o):
				continue
			case x.Tok == token.ASSIGN && isBoolType(t) && isConst(info, rhs):
				continue
			case x.Tok == token.ASSIGN && oc.guardedMinMax(x, o):
				continue
			case x.Tok == token.ASSIGN && isConst(info, rhs):
				continue // same constant whatever the order
			default:
				oc.leak("assigns %s = %s (last writer wins in map order)", id.Name, exprStr(rhs))
			}
			continue
		}
		// m2[key] = v : a write into another map keyed by loop data is order-insensitive unless the value
		// depends on loop-carried state
		if ix, ok := l.(*ast.IndexExpr); ok {
			if _, isMap := info.TypeOf(ix.X).Underlying().(*types.Map); isMap {
				if rhs != nil && oc.mentions(rhs, oc.carriedScalars(), nil) {
					oc.leak("map write %s depends on loop-carried state", exprStr(l))
				}
				// m2[K] = V is order-insensitive when distinct iterations cannot write different values under
				// one key: K is the loop key itself (injective), or V does not depend on the iteration.
				if rhs != nil && !underKeyEq && oc.dependsOnIteration(rhs) {
					if !oc.injectiveKey(ix.Index) {
						oc.leak("map write %s uses a computed key: two iterations may collide on it with different values (last writer wins in map order)", exprStr(l))
					}
					// several writes into one map must agree on the key expression, or their key sets may overlap
					mobj := exprStr(ix.X)
					if prev, ok := oc.mapKeys[mobj]; ok && prev != exprStr(ix.Index) {
						oc.leak("map %s is written under two different key expressions (%s and %s) in one iteration: the key sets may overlap, and then the value kept depends on map order", mobj, prev, exprStr(ix.Index))
					}
					oc.mapKeys[mobj] = exprStr(ix.Index)
				}
				continue
			}
			// slice element write by computed index: insensitive when the index does not depend on carried state
			if oc.mentions(ix.Index, oc.carriedScalars(), nil) {
				// keys[i] = k; i++ : collection by position — fine when sorted afterwards
				if so := core.ObjOf(info, ix.X); so != nil && !oc.declaredInside(so) {
					oc.collect[so] = true
				} else {
					oc.leak("indexed write %s at a loop-carried position", exprStr(l))
				}
			}
			continue
		}
		// field write through the value of the current key (per-key disjoint) or through anything else
		if root := rootIdent(info, l); root != nil && (root == oc.valObj || oc.declaredInside(root)) {
			continue
		}
		if underKeyEq {
			continue
		}
		if rhs != nil && isConst(info, rhs) {
			continue
		}
		if rhs != nil && isMinMaxCall(info, rhs) {
			continue
		}
		oc.leak("writes %s (shared location, last writer wins in map order)", exprStr(l))
	}
}

func (oc *orderCtx) mentionsObj(e ast.Expr, o types.Object) bool {
	found := false
	ast.Inspect(e, func(n ast.Node) bool {
		if id, ok := n.(*ast.Ident); ok && oc.info.Uses[id] == o {
			found = true
		}
		return true
	})
	return found
}

// guardedMinMax: `if v > best { best = v }` — the assignment sits directly under an if comparing the
// assigned variable with the assigned value using <,>,<=,>=.
func (oc *orderCtx) guardedMinMax(as *ast.AssignStmt, o types.Object) bool {
	if len(as.Lhs) != 1 || len(as.Rhs) != 1 {
		return false
	}
	ok := false
	ast.Inspect(oc.rs.Body, func(n ast.Node) bool {
		is, isIf := n.(*ast.IfStmt)
		if !isIf || len(is.Body.List) != 1 || is.Body.List[0] != ast.Stmt(as) {
			return true
		}
		be, isBin := ast.Unparen(is.Cond).(*ast.BinaryExpr)
		if !isBin {
			return true
		}
		switch be.Op {
		case token.LSS, token.GTR, token.LEQ, token.GEQ:
			a, b := exprStr(be.X), exprStr(be.Y)
			l, r := exprStr(as.Lhs[0]), exprStr(as.Rhs[0])
			if (a == l && b == r) || (a == r && b == l) {
				ok = true
			}
		}
		return true
	})
	return ok
}

func isConst(info *types.Info, e ast.Expr) bool {
	if e == nil {
		return false
	}
	tv, ok := info.Types[e]
	return ok && (tv.Value != nil || tv.IsNil())
}

func (oc *orderCtx) carriedScalars() map[types.Object]bool {
	out := map[types.Object]bool{}
	for o := range oc.carried {
		switch o.Type().Underlying().(type) {
		case *types.Map:
		default:
			out[o] = true
		}
	}
	return out
}

// classifyMapRange decides one `range` over a map.
func classifyMapRange(p *core.Prog, fi *core.FuncInfo, rs *ast.RangeStmt) mapRange {
	info := fi.Pkg.TypesInfo
	oc := &orderCtx{pk: fi.Pkg, info: info, fi: fi, rs: rs, carried: map[types.Object]bool{}, collect: map[types.Object]bool{}, mapKeys: map[string]string{}}
	if rs.Key != nil {
		oc.keyObj = core.ObjOf(info, rs.Key)
	}
	if rs.Value != nil {
		oc.valObj = core.ObjOf(info, rs.Value)
	}
	// loop-carried variables
	ast.Inspect(rs.Body, func(n ast.Node) bool {
		switch s := n.(type) {
		case *ast.AssignStmt:
			for _, l := range s.Lhs {
				if id, ok := ast.Unparen(l).(*ast.Ident); ok {
					if o := info.Uses[id]; o != nil && !oc.declaredInside(o) {
						oc.carried[o] = true
					}
				}
			}
		case *ast.IncDecStmt:
			if o := core.ObjOf(info, s.X); o != nil && !oc.declaredInside(o) {
				oc.carried[o] = true
			}
		}
		return true
	})
	oc.stmts(rs.Body.List, false)
	mr := mapRange{fi: fi, rs: rs}
	if len(oc.leaks) > 0 {
		mr.class = "leak"
		mr.why = strings.Join(oc.leaks, "; ")
		return mr
	}
	if len(oc.collect) == 0 {
		mr.class = "insensitive"
		mr.why = "body has only commutative effects (map/set writes, integer counters, min/max, constant flags, key-equality lookups)"
		return mr
	}
	// collected slices must be sorted before any other use after the loop
	fl := core.NewFlow(fi.Pkg, fi.Decl.Body)
	for o := range oc.collect {
		sortedOK, why := sortedBeforeUse(fi, fl, rs, o)
		if !sortedOK {
			mr.class = "leak"
			mr.why = fmt.Sprintf("collects into %s in map order: %s", o.Name(), why)
			return mr
		}
	}
	mr.class = "sorted-after"
	mr.why = "collected slice is sorted before any other use"
	return mr
}

// sortedBeforeUse: after the loop, every use of the collected slice o is (a) the argument of a
// sort call, (b) dominated by such a call, or (c) len()/append of itself.
func sortedBeforeUse(fi *core.FuncInfo, fl *core.Flow, rs *ast.RangeStmt, o types.Object) (bool, string) {
	info := fi.Pkg.TypesInfo
	var sorts []*ast.CallExpr
	for _, call := range core.Calls(fi.Decl.Body, false) {
		f := core.CalleeOf(info, call)
		if f == nil || f.Pkg() == nil || len(call.Args) == 0 {
			continue
		}
		if isSortFunc(f) && core.ObjOf(info, peelConv(info, call.Args[0])) == o && call.Pos() > rs.End() {
			sorts = append(sorts, call)
		}
	}
	bad := ""
	ast.Inspect(fi.Decl.Body, func(n ast.Node) bool {
		id, ok := n.(*ast.Ident)
		if !ok || info.Uses[id] != o || id.Pos() < rs.End() {
			return true
		}
		if isLenArg(fi, id) {
			return true
		}
		for _, sc := range sorts {
			if sc.Args[0].Pos() <= id.Pos() && id.End() <= sc.Args[0].End() {
				return true
			}
			// uses inside the comparator closure of sort.Slice
			if sc.Pos() <= id.Pos() && id.End() <= sc.End() {
				return true
			}
			if fl.DominatesNode(sc, id) {
				return true
			}
		}
		if bad == "" {
			bad = fmt.Sprintf("used at %s before/without a sort", exprStr(id))
		}
		return true
	})
	if len(sorts) == 0 && bad == "" {
		// never used after the loop (e.g. only returned inside) – check returns inside the function
		return true, ""
	}
	return bad == "", bad
}

// mapRangesIn lists and classifies every range over a map in the given packages.
func mapRangesIn(p *core.Prog, pkgs []*packages.Package) []mapRange {
	var out []mapRange
	for _, pk := range pkgs {
		for _, fi := range p.Funcs(pk) {
			ast.Inspect(fi.Decl.Body, func(n ast.Node) bool {
				rs, ok := n.(*ast.RangeStmt)
				if !ok {
					return true
				}
				t := pk.TypesInfo.TypeOf(rs.X)
				if t == nil {
					return true
				}
				if _, isMap := t.Underlying().(*types.Map); !isMap {
					return true
				}
				out = append(out, classifyMapRange(p, fi, rs))
				return true
			})
		}
	}
	return out
}

func isSortFunc(f *types.Func) bool {
	if f == nil || f.Pkg() == nil {
		return false
	}
	switch f.Pkg().Path() + "." + f.Name() {
	case "sort.Sort", "sort.Stable", "sort.Slice", "sort.SliceStable", "sort.Strings", "sort.Ints", "sort.Float64s",
		"slices.Sort", "slices.SortFunc", "slices.SortStableFunc":
		return true
	}
	return false
}

// dependsOnIteration: e mentions the loop key/value or a variable declared inside the loop body.
func (oc *orderCtx) dependsOnIteration(e ast.Expr) bool {
	found := false
	ast.Inspect(e, func(n ast.Node) bool {
		if id, ok := n.(*ast.Ident); ok {
			if o := oc.info.Uses[id]; o != nil && (o == oc.keyObj || o == oc.valObj || oc.declaredInside(o)) {
				if _, isVar := o.(*types.Var); isVar {
					found = true
				}
			}
		}
		return true
	})
	return found
}

// injectiveKey: the written key determines the loop key — it is the loop key, a pointer/identity taken from
// the loop value that is itself keyed (v.Field where the map is keyed by that field is not provable), or a
// concatenation of a loop-invariant prefix with the loop key using a separator is NOT accepted (prefixes can collide).
func (oc *orderCtx) injectiveKey(k ast.Expr) bool {
	k = ast.Unparen(k)
	if oc.keyObj != nil && core.ObjOf(oc.info, k) == oc.keyObj {
		return true
	}
	// invariant + "sep" + key (+ invariant): injective in the key because everything else is fixed during the loop
	if be, ok := k.(*ast.BinaryExpr); ok && be.Op == token.ADD {
		nkey := 0
		okAll := true
		var walk func(e ast.Expr)
		walk = func(e ast.Expr) {
			e = ast.Unparen(e)
			if b, ok := e.(*ast.BinaryExpr); ok && b.Op == token.ADD {
				walk(b.X)
				walk(b.Y)
				return
			}
			if oc.keyObj != nil && core.ObjOf(oc.info, e) == oc.keyObj {
				nkey++
				return
			}
			if oc.dependsOnIteration(e) || oc.mentions(e, oc.carried, nil) {
				okAll = false
			}
		}
		walk(be)
		return okAll && nkey == 1
	}
	// inverse of a constant map literal whose values are pairwise distinct (or whose duplicated values are
	// re-assigned explicitly after the loop)
	if oc.valObj != nil && core.ObjOf(oc.info, k) == oc.valObj {
		return oc.inverseOfLiteralOK()
	}
	return false
}

// inverseOfLiteralOK: the ranged map is a package-level variable initialised with a literal of constant
// keys and values; every value that occurs more than once is assigned explicitly (constant key) after the loop.
func (oc *orderCtx) inverseOfLiteralOK() bool {
	mv, ok := core.ObjOf(oc.info, oc.rs.X).(*types.Var)
	if !ok || mv.Pkg() == nil || mv.Parent() != mv.Pkg().Scope() {
		return false
	}
	// find the literal
	var lit *ast.CompositeLit
	var litInfo *types.Info
	for _, f := range oc.pk.Syntax {
		ast.Inspect(f, func(n ast.Node) bool {
			vs, ok := n.(*ast.ValueSpec)
			if !ok {
				return true
			}
			for i, nm := range vs.Names {
				if oc.pk.TypesInfo.Defs[nm] == types.Object(mv) && i < len(vs.Values) {
					if cl, ok := vs.Values[i].(*ast.CompositeLit); ok {
						lit, litInfo = cl, oc.pk.TypesInfo
					}
				}
			}
			return true
		})
	}
	if lit == nil {
		return false
	}
	count := map[string]int{}
	for _, el := range lit.Elts {
		kv, ok := el.(*ast.KeyValueExpr)
		if !ok {
			return false
		}
		tv, ok := litInfo.Types[kv.Value]
		if !ok || tv.Value == nil {
			return false
		}
		count[tv.Value.ExactString()]++
	}
	// explicit re-assignments after the loop in the same function: <target>[CONST] = …
	fixed := map[string]bool{}
	ast.Inspect(oc.fi.Decl.Body, func(n ast.Node) bool {
		as, ok := n.(*ast.AssignStmt)
		if !ok || as.Pos() < oc.rs.End() {
			return true
		}
		for _, l := range as.Lhs {
			if ix, ok := ast.Unparen(l).(*ast.IndexExpr); ok {
				if tv, ok := oc.info.Types[ix.Index]; ok && tv.Value != nil {
					fixed[tv.Value.ExactString()] = true
				}
			}
		}
		return true
	})
	for v, n := range count {
		if n > 1 && !fixed[v] {
			return false
		}
	}
	return true
}
