package props

import (
	"fmt"
	"go/ast"
	"go/constant"
	"go/token"
	"go/types"
	"strings"

	"golang.org/x/tools/go/packages"

	"d2verif/internal/core"
)

func init() {
	register(&Prop{
		ID:       "C32",
		Title:    "ASCII rendering is total and keeps labels visible",
		Patterns: []string{"./d2renderers/d2ascii/..."},
		Explanation: "Decides: (1) the canvas grid is reached only through Canvas.Set/Get, whose indexing is dominated by IsInBounds(x, y) on the same coordinates, and IsInBounds tests both coordinates against both ends (0 and the length of the indexed dimension); " +
			"(2) every other index, slice and make([]T, n) expression of the ASCII renderer (d2ascii, asciicanvas, asciiroute, asciishapes) is in range by an idiom of the bounds engine or by a reviewed invariant — anything else is a violation; " +
			"(3) every glyph handed to Canvas.Set derives (value-level, following locals, map literals and their range variables) from a method of the active charset.Set, from a 7-bit constant, or from the characters of a label; (4) every method of the ASCII character set returns a non-empty 7-bit constant; " +
			"(5) no string or rune literal with a non-ASCII character exists in the renderer outside the Unicode character set (charset/unicode.go and the Unicode* constants), except in fields that are never read.",
		NotCovered: "label visibility (that every single-line label lands on the canvas un-overwritten); canvas size arithmetic for huge diagrams; panics inside fmt/strings",
		Trust:      []string{"the reviewed invariants of the exceptions table", "Calibrate returns non-negative cell sizes for non-negative pixel sizes"},
		Technique:  "static analysis: guard dominance, bounds-idiom discharge, value provenance of glyph arguments, constant inventory",
		Run:        runC32,
	})
}

var asciiPkgs = []string{"d2renderers/d2ascii", "d2renderers/d2ascii/asciicanvas", "d2renderers/d2ascii/asciiroute", "d2renderers/d2ascii/asciishapes", "d2renderers/d2ascii/charset"}

// c32BoundsExceptions: reviewed invariants, keyed by the engine's site key.
var c32BoundsExceptions = map[string]string{
	"make:d2renderers/d2ascii/asciicanvas.New:make([][]string, height)": "the only caller passes h+padding+1 with h the rounded height of the diagram's bounding box (bottom-right minus top-left, both shifted to non-negative) and padding ≥ 0",
	"make:d2renderers/d2ascii/asciicanvas.New:make([]string, width)":    "same for the width",
	"index:d2renderers/d2ascii/asciicanvas.(*Canvas).Set:c.grid[y][x]":                                  "guarded by c.IsInBounds(x, y) (rule C32.grid-guard)",
	"index:d2renderers/d2ascii/asciicanvas.(*Canvas).Set:c.grid[y]":                                     "guarded by c.IsInBounds(x, y) (rule C32.grid-guard)",
	"index:d2renderers/d2ascii/asciicanvas.(*Canvas).Get:c.grid[y][x]":                                  "guarded by c.IsInBounds(x, y) (rule C32.grid-guard)",
	"index:d2renderers/d2ascii/asciicanvas.(*Canvas).Get:c.grid[y]":                                     "guarded by c.IsInBounds(x, y) (rule C32.grid-guard)",
	"index:d2renderers/d2ascii/asciicanvas.(*Canvas).IsInBounds:c.grid[y]":                              "right operand of y >= 0 && y < len(c.grid) && …",
	"index:d2renderers/d2ascii/asciicanvas.(*Canvas).ToByteArray:c.grid[row]":                           "row runs from startRow to endRow, both indexes of c.grid found by the scans above (0 ≤ startRow, endRow ≤ len-1); the loop is inside len(c.grid) > 0",
	"index:d2renderers/d2ascii/asciicanvas.(*Canvas).ToByteArray:c.grid[row]#2":                         "same",
	"index:d2renderers/d2ascii/asciicanvas.(*Canvas).ToByteArray:c.grid[row]#3":                         "same",
	"index:d2renderers/d2ascii/asciicanvas.(*Canvas).ToByteArray:c.grid[row]#4":                         "same",
	"index:d2renderers/d2ascii/asciicanvas.(*Canvas).ToByteArray:c.grid[row][col]":                      "guarded by col < len(c.grid[row]) in the same condition",
	"index:d2renderers/d2ascii/asciicanvas.(*Canvas).ToByteArray:c.grid[row][col]#2":                    "guarded by col < len(c.grid[row]) in the same condition",
	"index:d2renderers/d2ascii/asciicanvas.(*Canvas).ToByteArray:c.grid[i]#2":                           "i runs from startRow to endRow (see above); for an empty grid endRow = -1 and the loop does not run",
	"slice:d2renderers/d2ascii/asciicanvas.(*Canvas).ToByteArray:rowData[startCol:]":                    "guarded by startCol < len(rowData); startCol ≥ 0 (initialised to 0, assigned loop indexes)",
	"slice:d2renderers/d2ascii/asciicanvas.(*Canvas).ToByteArray:rowData[:endCol - startCol + 1]":       "guarded by endCol-startCol+1 < len(rowData); endCol ≥ startCol or both 0 (scans over the same columns), so the bound is ≥ 1 — when no cell has content both are 0 and the bound is 1 ≤ len",
	"index:d2renderers/d2ascii/asciicanvas.(*Canvas).ToByteArray:[]rune(chars.Vertical())[0]":           "charset methods return non-empty constants (rule C32.ascii-set for the ASCII set; the Unicode set's constants are non-empty literals)",
	"index:d2renderers/d2ascii/asciicanvas.(*Canvas).ToByteArray:[]rune(chars.Horizontal())[0]":         "same",
	"index:d2renderers/d2ascii.(*ASCIIartist).Render:adjustedRoute[i]":                                  "adjustedRoute = make([]*geo.Point, len(conn.Route)) and i ranges over conn.Route",
	"index:d2renderers/d2ascii.(*ASCIIartist).Render:adjustedRoute[i]#2":                                "same",
	"index:d2renderers/d2ascii/asciiroute.processRoute:routesCopy[i]":                                   "routesCopy = make([]*geo.Point, len(routes)) and i ranges over routes",
	"index:d2renderers/d2ascii/asciiroute.processRoute:routesCopy[endIdx]#3":                            "endIdx = len(routesCopy)-1 (or an earlier index) and processRoute returns early for fewer than two points",
	"index:d2renderers/d2ascii/asciiroute.processRoute:routesCopy[endIdx]#4":                            "same",
	"index:d2renderers/d2ascii/asciiroute.forceHorizontalVerticalRoute:newRoutes[len(newRoutes) - 1]":   "newRoutes starts with routes[0] appended before the loop",
	"index:d2renderers/d2ascii/asciiroute.mergeRoutes:mRoutes[len(mRoutes) - 1]":                        "mRoutes starts with routes[0] appended before the loop",
	"index:d2renderers/d2ascii/asciiroute.mergeRoutes:mRoutes[len(mRoutes) - 1]#2":                      "same",
	"index:d2renderers/d2ascii/asciiroute.drawConnectionLabel:routes[labelPos.I + absInt((geo.Sign(sx) - 1) / 2)]": "labelPos.I is an index i of a segment (i, i+1) chosen by calculateBestLabelPosition; the offset is 0 or 1",
	"index:d2renderers/d2ascii/asciiroute.drawConnectionLabel:routes[labelPos.I + ((geo.Sign(sx) + 1) / 2)]":        "same",
	"index:d2renderers/d2ascii/asciishapes.DrawDocument:bcurve[i]":                                      "i < hcurve ≤ MaxCurveHeight+1 ≤ 4 = len(bcurve)",
	"index:d2renderers/d2ascii/asciishapes.DrawDocument:tcurve[i]":                                      "i < hcurve ≤ 4 = len(tcurve) (three runes plus the one-rune overline)",
	"index:d2renderers/d2ascii/asciishapes.DrawDocument:bcurve[abs(i - n + 1)]":                         "abs(i-n+1) < hcurve ≤ 4",
	"index:d2renderers/d2ascii/asciishapes.DrawDocument:tcurve[abs(i - n + 1)]":                         "abs(i-n+1) < hcurve ≤ 4",
	"index:d2renderers/d2ascii/asciishapes.DrawDocument:bcurve[3]":                                      "bcurve is the four-rune literal",
	"index:d2renderers/d2ascii/asciishapes.DrawDocument:tcurve[3]":                                      "tcurve is three literal runes plus the character set's overline (non-empty)",
	"index:d2renderers/d2ascii/asciishapes.DrawDocument:rcurve[relX - int(iw / 2)]":                     "guarded by relX > n (so relX - iw/2 ≥ 0 for n = (iw-2)/2) and (relX-int(iw/2)) < len(rcurve) in the same condition",
	"slice:d2renderers/d2ascii/asciishapes.DrawFieldWithType:fieldType[:maxTypeWidth - 3]":              "inside len(fieldType) > maxTypeWidth && maxTypeWidth > 3",
}

func runC32(c *core.Check) {
	c.Rule("C32.grid-guard", "Canvas.Set/Get index the grid only under IsInBounds; IsInBounds tests both coordinates at both ends")
	c.Rule("C32.bounds", "index, slice and make expressions of the ASCII renderer are in range")
	c.Rule("C32.glyphs", "glyphs written to the canvas come from the character set, 7-bit constants or label text")
	c.Rule("C32.ascii-set", "the ASCII character set returns non-empty 7-bit constants")
	c.Rule("C32.literals", "no non-ASCII literal outside the Unicode character set")
	var pkgs []*packages.Package
	for _, rel := range asciiPkgs {
		pk := c.P.Pkg(rel)
		if pk == nil {
			c.Broken("%s not loaded", rel)
			return
		}
		pkgs = append(pkgs, pk)
	}
	// (1)
	cv := c.P.Pkg("d2renderers/d2ascii/asciicanvas")
	gridF := structField(c.P, "d2renderers/d2ascii/asciicanvas", "Canvas", "grid")
	for _, name := range []string{"Set", "Get"} {
		fi := mustFunc(c, "d2renderers/d2ascii/asciicanvas", "Canvas", name)
		if fi == nil {
			continue
		}
		info := fi.Pkg.TypesInfo
		fl := core.NewFlow(fi.Pkg, fi.Decl.Body)
		ast.Inspect(fi.Decl.Body, func(n ast.Node) bool {
			ix, ok := n.(*ast.IndexExpr)
			if !ok {
				return true
			}
			inner, ok := ast.Unparen(ix.X).(*ast.IndexExpr)
			if !ok || core.FieldOf(info, inner.X) != gridF {
				return true
			}
			okG := false
			for _, g := range fl.GuardsOfNode(ix) {
				for _, a := range g.Atoms() {
					call, isCall := ast.Unparen(a.Cond).(*ast.CallExpr)
					if isCall && a.True && core.IsCallTo(info, call, "d2renderers/d2ascii/asciicanvas.(*Canvas).IsInBounds") && len(call.Args) == 2 &&
						exprStr(call.Args[0]) == exprStr(ix.Index) && exprStr(call.Args[1]) == exprStr(inner.Index) {
						okG = true
					}
				}
			}
			c.Decide(okG, "C32.grid-guard", name+":grid[y][x]", ix.Pos(), "under c.IsInBounds(x, y)", "the grid is indexed without the bounds test on the same coordinates: a shape or route partly outside the canvas crashes the renderer")
			return true
		})
	}
	if ib := mustFunc(c, "d2renderers/d2ascii/asciicanvas", "Canvas", "IsInBounds"); ib != nil {
		var conj []string
		ast.Inspect(ib.Decl.Body, func(n ast.Node) bool {
			if rs, ok := n.(*ast.ReturnStmt); ok && len(rs.Results) == 1 {
				var flat func(e ast.Expr)
				flat = func(e ast.Expr) {
					if be, ok := ast.Unparen(e).(*ast.BinaryExpr); ok && be.Op == token.LAND {
						flat(be.X)
						flat(be.Y)
						return
					}
					conj = append(conj, exprStr(e))
				}
				flat(rs.Results[0])
			}
			return true
		})
		want := []string{"y >= 0", "y < len(c.grid)", "x >= 0", "x < len(c.grid[y])"}
		have := map[string]bool{}
		for _, s := range conj {
			have[s] = true
		}
		missing := []string{}
		for _, w := range want {
			if !have[w] {
				missing = append(missing, w)
			}
		}
		c.Decide(len(missing) == 0 && len(conj) == 4, "C32.grid-guard", "IsInBounds:four-tests", ib.Decl.Pos(), strings.Join(conj, " && "), fmt.Sprintf("IsInBounds no longer tests %v (has %v): coordinates outside the canvas reach the grid", missing, conj))
	}
	// who indexes the grid: only asciicanvas (the field is unexported; count for the record)
	_ = cv

	// (2)
	var fis []*core.FuncInfo
	for _, pk := range pkgs {
		fis = append(fis, c.P.Funcs(pk)...)
	}
	used := map[string]bool{}
	for _, s := range boundsSites(c.P, fis, nil) {
		switch {
		case s.ok:
			c.Pass("C32.bounds", s.key, s.node.Pos(), s.how)
		case c32BoundsExceptions[s.key] != "":
			used[s.key] = true
			c.Except("C32.bounds", s.key, s.node.Pos(), c32BoundsExceptions[s.key])
		default:
			c.Fail("C32.bounds", s.key, s.node.Pos(), exprStr(s.node)+" can be out of range ("+s.how+"): some laid-out diagram makes the ASCII renderer panic")
		}
	}
	c.Floor("C32.bounds", 80)
	// make([]T, n)
	for _, fi := range fis {
		info := fi.Pkg.TypesInfo
		for _, call := range core.Calls(fi.Decl.Body, true) {
			id, ok := call.Fun.(*ast.Ident)
			if !ok || id.Name != "make" || len(call.Args) < 2 {
				continue
			}
			if _, isB := info.Uses[id].(*types.Builtin); !isB {
				continue
			}
			for _, a := range call.Args[1:] {
				ok, how := nonNegLen(fi, a)
				key := "make:" + fname(fi) + ":" + exprStr(call)
				if !ok && c32BoundsExceptions[key] != "" {
					c.Except("C32.bounds", key, call.Pos(), c32BoundsExceptions[key])
					continue
				}
				c.Decide(ok, "C32.bounds", key, call.Pos(), how, "make is called with a length that can be negative ("+exprStr(a)+"): a shape calibrated to fewer cells than the formula assumes panics with `makeslice: len out of range`")
			}
		}
	}

	// (3) glyphs
	ng := 0
	for _, fi := range fis {
		info := fi.Pkg.TypesInfo
		for _, call := range core.Calls(fi.Decl.Body, true) {
			if !core.IsCallTo(info, call, "d2renderers/d2ascii/asciicanvas.(*Canvas).Set") || len(call.Args) != 3 {
				continue
			}
			if fname(fi) == "d2renderers/d2ascii/asciicanvas.(*Canvas).DrawLabel" {
				continue // writes label characters
			}
			ng++
			ok, how := glyphOK(c.P, fi, call.Args[2], 0)
			key := "glyph:" + fname(fi) + ":" + exprStr(call.Args[2])
			if !ok && glyphExceptions[key] != "" {
				c.Except("C32.glyphs", key, call.Pos(), glyphExceptions[key])
				continue
			}
			c.Decide(ok, "C32.glyphs", key, call.Pos(), how, "the glyph "+exprStr(call.Args[2])+" is not known to come from the character set, a 7-bit constant or a label ("+how+"): the standard character set may emit a non-ASCII character")
		}
	}
	if ng < 50 {
		c.Fail("C32.glyphs", "sites", token.NoPos, fmt.Sprintf("only %d Canvas.Set call sites found", ng))
	}

	// (4)
	if cs := c.P.Pkg("d2renderers/d2ascii/charset"); cs != nil {
		n := 0
		for _, fi := range c.P.Funcs(cs) {
			if !strings.HasPrefix(fname(fi), "d2renderers/d2ascii/charset.(*ASCIISet).") {
				continue
			}
			n++
			ok := false
			val := ""
			if len(fi.Decl.Body.List) == 1 {
				if rs, isRet := fi.Decl.Body.List[0].(*ast.ReturnStmt); isRet && len(rs.Results) == 1 {
					if tv, has := fi.Pkg.TypesInfo.Types[rs.Results[0]]; has && tv.Value != nil && tv.Value.Kind() == constant.String {
						val = constant.StringVal(tv.Value)
						ok = val != "" && isASCII(val)
					}
				}
			}
			c.Decide(ok, "C32.ascii-set", "ASCIISet."+fi.Obj.Name(), fi.Decl.Pos(), fmt.Sprintf("returns %q", val), fmt.Sprintf("ASCIISet.%s does not return a non-empty 7-bit constant (%q)", fi.Obj.Name(), val))
		}
		if n < 30 {
			c.Fail("C32.ascii-set", "methods", token.NoPos, fmt.Sprintf("only %d ASCIISet methods found", n))
		}
	}

	// (5)
	nlit := 0
	for _, pk := range pkgs {
		for _, f := range pk.Syntax {
			fname0 := c.P.Pos(f.Pos())
			if strings.Contains(fname0, "charset/unicode.go") {
				continue
			}
			ast.Inspect(f, func(n ast.Node) bool {
				bl, ok := n.(*ast.BasicLit)
				if !ok || (bl.Kind != token.STRING && bl.Kind != token.CHAR) {
					return true
				}
				nlit++
				if isASCII(bl.Value) {
					return true
				}
				// the Unicode* constants of charset.go
				key := "literal:" + strings.TrimSuffix(strings.SplitN(fname0, ":", 2)[0], ".go") + ":" + bl.Value
				if strings.Contains(fname0, "charset/charset.go") && isUnicodeConst(pk, bl) {
					return true
				}
				if f := neverReadField(c.P, pk, f, bl); f != "" {
					c.Except("C32.literals", key, bl.Pos(), "assigned to the field "+f+", which is never read")
					return true
				}
				c.Fail("C32.literals", key, bl.Pos(), "a non-ASCII literal "+bl.Value+" outside the Unicode character set: it is drawn in the standard (7-bit) character set too, or indexed by byte")
				return true
			})
		}
	}
	if nlit < 100 {
		c.Fail("C32.literals", "inventory", token.NoPos, fmt.Sprintf("only %d literals inventoried", nlit))
	} else {
		c.Pass("C32.literals", "inventory", token.NoPos, fmt.Sprintf("%d string/rune literals inventoried", nlit))
	}
	for k := range c32BoundsExceptions {
		if !used[k] {
			c.Note("bounds exception %q no longer matches a site", k)
		}
	}
}

var glyphExceptions = map[string]string{}

func isASCII(s string) bool {
	for _, r := range s {
		if r > 127 {
			return false
		}
	}
	return true
}

func isUnicodeConst(pk *packages.Package, bl *ast.BasicLit) bool {
	found := false
	for _, f := range pk.Syntax {
		ast.Inspect(f, func(n ast.Node) bool {
			vs, ok := n.(*ast.ValueSpec)
			if !ok {
				return true
			}
			for i, v := range vs.Values {
				if v == ast.Expr(bl) && i < len(vs.Names) && strings.HasPrefix(vs.Names[i].Name, "Unicode") {
					found = true
				}
			}
			return true
		})
	}
	return found
}

// neverReadField: the literal is the value of a struct field (in a composite literal) that no selector expression in
// the repository packages under analysis reads. Returns the field name.
func neverReadField(p *core.Prog, pk *packages.Package, file *ast.File, bl *ast.BasicLit) string {
	var field *types.Var
	ast.Inspect(file, func(n ast.Node) bool {
		kv, ok := n.(*ast.KeyValueExpr)
		if !ok || kv.Value != ast.Expr(bl) {
			return true
		}
		if id, ok := kv.Key.(*ast.Ident); ok {
			if v, ok := pk.TypesInfo.Uses[id].(*types.Var); ok && v.IsField() {
				field = v
			}
		}
		return true
	})
	if field == nil {
		return ""
	}
	read := false
	for _, q := range p.RepoPkgs() {
		for _, f := range q.Syntax {
			ast.Inspect(f, func(n ast.Node) bool {
				if sel, ok := n.(*ast.SelectorExpr); ok {
					if s, ok := q.TypesInfo.Selections[sel]; ok && s.Obj() == field {
						read = true
					}
				}
				return true
			})
		}
	}
	if read {
		return ""
	}
	return field.Name()
}

// nonNegLen: the length argument of make cannot be negative.
func nonNegLen(fi *core.FuncInfo, e ast.Expr) (bool, string) {
	info := fi.Pkg.TypesInfo
	e = ast.Unparen(e)
	if c, ok := intConst(info, e); ok {
		return c >= 0, "constant"
	}
	if call, ok := e.(*ast.CallExpr); ok {
		if id, ok := call.Fun.(*ast.Ident); ok && (id.Name == "len" || id.Name == "cap") {
			return true, "a length"
		}
	}
	if be, ok := e.(*ast.BinaryExpr); ok && (be.Op == token.ADD || be.Op == token.MUL) {
		a, _ := nonNegLen(fi, be.X)
		b, _ := nonNegLen(fi, be.Y)
		return a && b, "sum/product of non-negative terms"
	}
	if id, ok := e.(*ast.Ident); ok {
		o := core.ObjOf(info, id)
		if o == nil {
			return false, "unknown"
		}
		if nonNegExpr(fi, id) {
			return true, "non-negative by its definitions"
		}
		// clamp: if v < 0 { v = 0 } (or v <= 0) as a statement before the use
		clamped := false
		ast.Inspect(fi.Decl.Body, func(n ast.Node) bool {
			is, ok := n.(*ast.IfStmt)
			if !ok || is.End() > e.Pos() || len(is.Body.List) != 1 {
				return true
			}
			be, ok := ast.Unparen(is.Cond).(*ast.BinaryExpr)
			if !ok || core.ObjOf(info, be.X) != o || (be.Op != token.LSS && be.Op != token.LEQ) {
				return true
			}
			if cv, ok := intConst(info, be.Y); !ok || cv > 1 {
				return true
			}
			if as, ok := is.Body.List[0].(*ast.AssignStmt); ok && len(as.Lhs) == 1 && core.ObjOf(info, as.Lhs[0]) == o {
				if cv, ok := intConst(info, as.Rhs[0]); ok && cv >= 0 {
					clamped = true
				}
			}
			return true
		})
		if clamped {
			return true, "clamped at zero before use"
		}
		// max(0, …) style helper or parameter: undecided
		if isParam(fi, o) {
			return false, "parameter " + id.Name
		}
		return false, id.Name + " may be negative"
	}
	return false, "not decided"
}

// glyphOK: value provenance of a glyph.
func glyphOK(p *core.Prog, fi *core.FuncInfo, e ast.Expr, depth int) (bool, string) {
	info := fi.Pkg.TypesInfo
	e = ast.Unparen(e)
	if depth > 24 {
		return false, "provenance too deep"
	}
	if tv, ok := info.Types[e]; ok && tv.Value != nil {
		switch tv.Value.Kind() {
		case constant.String:
			if isASCII(constant.StringVal(tv.Value)) {
				return true, "7-bit constant"
			}
			return false, "non-ASCII constant"
		case constant.Int:
			if v, ok := constant.Int64Val(tv.Value); ok && v < 128 {
				return true, "7-bit constant"
			}
			return false, "non-ASCII constant"
		}
	}
	switch x := e.(type) {
	case *ast.CallExpr:
		// conversion string(x) / rune(x)
		if tv, ok := info.Types[x.Fun]; ok && tv.IsType() && len(x.Args) == 1 {
			return glyphOK(p, fi, x.Args[0], depth+1)
		}
		if f := core.CalleeOf(info, x); f != nil {
			if sig, ok := f.Type().(*types.Signature); ok && sig.Recv() != nil {
				rt := sig.Recv().Type()
				if nt, ok := rt.(*types.Named); ok && nt.Obj().Name() == "Set" && nt.Obj().Pkg() != nil && strings.HasSuffix(nt.Obj().Pkg().Path(), "d2ascii/charset") {
					return true, "character set method " + f.Name()
				}
			}
			// a getter of the canvas (existing cell content) is already a checked glyph or label text
			if core.FuncName(f) == "d2renderers/d2ascii/asciicanvas.(*Canvas).Get" {
				return true, "existing canvas content"
			}
		}
		return false, "result of " + exprStr(x.Fun)
	case *ast.IndexExpr:
		// element of a map/slice: every element of its literal definition
		return elementsOK(p, fi, x.X, depth+1)
	case *ast.Ident:
		o := core.ObjOf(info, x)
		if o == nil {
			return false, "unknown identifier"
		}
		switch o.Type().Underlying().(type) {
		case *types.Map, *types.Slice:
			return elementsOK(p, fi, x, depth+1)
		}
		if isParam(fi, o) {
			// label text parameters
			if strings.Contains(strings.ToLower(o.Name()), "label") || strings.Contains(strings.ToLower(o.Name()), "text") {
				return true, "label text"
			}
			// every caller passes an acceptable glyph
			return callersPassGlyph(p, fi, o, depth+1)
		}
		ds := defsOf(fi, o)
		if len(ds) == 0 {
			return false, "no definition of " + o.Name()
		}
		for _, d := range ds {
			if _, isAddr := d.Stmt.(*ast.UnaryExpr); isAddr {
				continue
			}
			if rs, ok := d.Stmt.(*ast.RangeStmt); ok && d.Rhs == nil {
				// ranging over a string: label characters; over a map/slice: its elements
				tv := info.Types[rs.X]
				if b, ok := tv.Type.Underlying().(*types.Basic); ok && b.Info()&types.IsString != 0 {
					if ok2, _ := glyphOK(p, fi, rs.X, depth+1); ok2 {
						continue
					}
					if strings.Contains(strings.ToLower(exprStr(rs.X)), "label") || strings.Contains(strings.ToLower(exprStr(rs.X)), "line") || strings.Contains(strings.ToLower(exprStr(rs.X)), "text") {
						continue
					}
					return false, "characters of " + exprStr(rs.X)
				}
				if rs.Value != nil && core.ObjOf(info, rs.Value) == o {
					if ok2, why := elementsOK(p, fi, rs.X, depth+1); !ok2 {
						return false, why
					}
					continue
				}
				return false, "range key " + o.Name()
			}
			if d.Rhs == nil {
				return false, "bound by " + fmt.Sprintf("%T", d.Stmt)
			}
			if d.Multi {
				// v, ok := m[k]
				if ix, ok := ast.Unparen(d.Rhs).(*ast.IndexExpr); ok && d.Index == 0 {
					if ok2, why := elementsOK(p, fi, ix.X, depth+1); !ok2 {
						return false, why
					}
					continue
				}
				return false, "multi-value " + exprStr(d.Rhs)
			}
			if ok2, why := glyphOK(p, fi, d.Rhs, depth+1); !ok2 {
				return false, o.Name() + " = " + exprStr(d.Rhs) + ": " + why
			}
		}
		return true, "every definition of " + o.Name() + " is a character-set glyph, 7-bit constant or label text"
	case *ast.BinaryExpr:
		if x.Op == token.ADD {
			a, wa := glyphOK(p, fi, x.X, depth+1)
			b, wb := glyphOK(p, fi, x.Y, depth+1)
			if a && b {
				return true, "concatenation of accepted glyphs"
			}
			return false, wa + " / " + wb
		}
	case *ast.SelectorExpr:
		// struct field holding a glyph: every assignment to the field in the package
		if v := core.FieldOf(info, x); v != nil {
			return fieldGlyphOK(p, fi, v, depth+1)
		}
	}
	return false, "not decided: " + exprStr(e)
}

// elementsOK: every value of the map/slice literal(s) the collection is defined by.
func elementsOK(p *core.Prog, fi *core.FuncInfo, coll ast.Expr, depth int) (bool, string) {
	info := fi.Pkg.TypesInfo
	coll = ast.Unparen(coll)
	var lits []*ast.CompositeLit
	switch x := coll.(type) {
	case *ast.CompositeLit:
		lits = append(lits, x)
	case *ast.Ident:
		o := core.ObjOf(info, x)
		if o == nil {
			return false, "unknown collection"
		}
		if isParam(fi, o) {
			return callersPassGlyph(p, fi, o, depth+1)
		}
		for _, d := range defsOf(fi, o) {
			if _, isAddr := d.Stmt.(*ast.UnaryExpr); isAddr {
				continue
			}
			if d.Rhs == nil {
				if vs, ok := d.Stmt.(*ast.ValueSpec); ok && len(vs.Values) == 0 {
					continue
				}
				return false, "collection " + x.Name + " bound by " + fmt.Sprintf("%T", d.Stmt)
			}
			switch r := ast.Unparen(d.Rhs).(type) {
			case *ast.CompositeLit:
				lits = append(lits, r)
			case *ast.CallExpr:
				if exprStr(r.Fun) == "make" {
					continue
				}
				// result of a renderer function with named results: the collection that function builds
				if f := core.CalleeOf(info, r); f != nil {
					if callee := p.Decl(f); callee != nil && callee.Decl.Type.Results != nil {
						var names []*ast.Ident
						for _, fld := range callee.Decl.Type.Results.List {
							names = append(names, fld.Names...)
						}
						idx := 0
						if d.Multi {
							idx = d.Index
						}
						if idx < len(names) {
							if ok, why := elementsOK(p, callee, names[idx], depth+1); !ok {
								return false, why
							}
							continue
						}
					}
				}
				if exprStr(r.Fun) == "append" {
					for _, a := range r.Args[1:] {
						if ok, why := glyphOK(p, fi, a, depth+1); !ok {
							return false, why
						}
					}
					continue
				}
				// []rune("…" + glyph)
				if tv, ok := info.Types[r.Fun]; ok && tv.IsType() && len(r.Args) == 1 {
					if ok, why := glyphOK(p, fi, r.Args[0], depth+1); !ok {
						return false, why
					}
					continue
				}
				return false, "collection " + x.Name + " = " + exprStr(r)
			default:
				return false, "collection " + x.Name + " = " + exprStr(d.Rhs)
			}
		}
		// element assignments X[k] = v
		bad := ""
		ast.Inspect(fi.Decl.Body, func(n ast.Node) bool {
			as, ok := n.(*ast.AssignStmt)
			if !ok {
				return true
			}
			for i, l := range as.Lhs {
				if ix, ok := l.(*ast.IndexExpr); ok && core.ObjOf(info, ix.X) == o && i < len(as.Rhs) {
					if ok2, why := glyphOK(p, fi, as.Rhs[i], depth+1); !ok2 {
						bad = why
					}
				}
			}
			return true
		})
		if bad != "" {
			return false, bad
		}
	default:
		return false, "collection " + exprStr(coll)
	}
	for _, cl := range lits {
		for _, el := range cl.Elts {
			v := el
			if kv, ok := el.(*ast.KeyValueExpr); ok {
				v = kv.Value
			}
			if ok, why := glyphOK(p, fi, v, depth+1); !ok {
				return false, "element " + exprStr(v) + ": " + why
			}
		}
	}
	return true, "every element is an accepted glyph"
}

func callersPassGlyph(p *core.Prog, fi *core.FuncInfo, param types.Object, depth int) (bool, string) {
	sig := fi.Obj.Type().(*types.Signature)
	idx := -1
	for i := 0; i < sig.Params().Len(); i++ {
		if sig.Params().At(i) == param {
			idx = i
		}
	}
	if idx < 0 || depth > 24 {
		return false, "parameter " + param.Name()
	}
	n := 0
	for _, rel := range asciiPkgs {
		pk := p.Pkg(rel)
		if pk == nil {
			continue
		}
		for _, caller := range p.Funcs(pk) {
			for _, call := range core.Calls(caller.Decl.Body, true) {
				if core.CalleeOf(caller.Pkg.TypesInfo, call) != fi.Obj || len(call.Args) <= idx {
					continue
				}
				n++
				if ok, why := glyphOK(p, caller, call.Args[idx], depth+1); !ok {
					return false, "caller " + fname(caller) + " passes " + exprStr(call.Args[idx]) + ": " + why
				}
			}
		}
	}
	if n == 0 {
		return false, "parameter " + param.Name() + " without callers in the renderer"
	}
	return true, fmt.Sprintf("parameter; all %d callers pass accepted glyphs", n)
}

func fieldGlyphOK(p *core.Prog, fi *core.FuncInfo, field *types.Var, depth int) (bool, string) {
	n := 0
	for _, rel := range asciiPkgs {
		pk := p.Pkg(rel)
		if pk == nil {
			continue
		}
		for _, w := range p.Funcs(pk) {
			info := w.Pkg.TypesInfo
			bad := ""
			ast.Inspect(w.Decl.Body, func(nd ast.Node) bool {
				switch x := nd.(type) {
				case *ast.AssignStmt:
					for i, l := range x.Lhs {
						if core.FieldOf(info, l) == field && i < len(x.Rhs) {
							n++
							if ok, why := glyphOK(p, w, x.Rhs[i], depth+1); !ok {
								bad = why
							}
						}
					}
				case *ast.KeyValueExpr:
					if id, ok := x.Key.(*ast.Ident); ok && info.Uses[id] == field {
						n++
						if ok, why := glyphOK(p, w, x.Value, depth+1); !ok {
							bad = why
						}
					}
				}
				return true
			})
			if bad != "" {
				return false, "field " + field.Name() + " written in " + fname(w) + ": " + bad
			}
		}
	}
	if n == 0 {
		return false, "field " + field.Name() + " has no writer in the renderer"
	}
	return true, "every value stored in field " + field.Name() + " is an accepted glyph"
}
