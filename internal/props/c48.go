package props

import (
	"go/ast"
	"go/types"

	"d2verif/internal/core"
)

// fileWriters are the primitives that create or truncate a named file in place.
var fileWriters = []string{
	"os.WriteFile", "os.Create", "os.OpenFile", "io/ioutil.WriteFile",
	"oss.terrastruct.com/util-go/xmain.(*State).WritePath",
	"github.com/jung-kurt/gofpdf.(*Fpdf).OutputFileAndClose",
}

func init() {
	register(&Prop{
		ID:       "C48",
		Title:    "Files rewritten in place are never left partially written",
		Patterns: []string{"./...", "oss.terrastruct.com/util-go/xmain"},
		Explanation: "Decides two structural clauses, not crash behaviour: (1) who-may-call — in every repository package linked into the d2 binary, each call of a primitive that creates/truncates a named file " +
			"(os.WriteFile, os.Create, os.OpenFile, xmain.State.WritePath, gofpdf OutputFileAndClose) is the fallback inside d2cli.Write, reached only on the error branch of the atomic writer called first; " +
			"(2) the atomic writer of the pinned util-go dependency performs CreateTemp(in the target's directory) → Write → Close → Rename in that order on every success path. " +
			"A violation names the call site.",
		NotCovered: "durability (fsync), the documented non-atomic fallback when the atomic write fails, multi-board directory outputs",
		Trust:      []string{"os.Rename within one directory is atomic (POSIX)"},
		Run:        runC48,
	})
}

func runC48(c *core.Check) {
	c.Rule("C48.who-writes", "every call to a truncating file writer in packages linked into the d2 binary is the guarded fallback in d2cli.Write")
	c.Rule("C48.write-order", "d2cli.Write calls AtomicWritePath first; WritePath is reachable only when that call returned a non-nil error")
	c.Rule("C48.atomic-seq", "xmain.AtomicWritePath: CreateTemp(filepath.Dir(target)) ≺ File.Write ≺ File.Close ≺ os.Rename ≺ every `return nil`")
	p := c.P
	root := p.Pkg(".")
	if root == nil {
		c.Broken("root package not loaded")
		return
	}
	write := mustFunc(c, "d2cli", "", "Write")
	var fallback *ast.CallExpr
	if write != nil {
		info := write.Pkg.TypesInfo
		atomic := callsIn(write, false, "oss.terrastruct.com/util-go/xmain.(*State).AtomicWritePath")
		plain := callsIn(write, false, "oss.terrastruct.com/util-go/xmain.(*State).WritePath")
		if len(atomic) != 1 || len(plain) != 1 {
			c.Fail("C48.write-order", "d2cli.Write:shape", write.Decl.Pos(), "expected exactly one AtomicWritePath and one WritePath call in d2cli.Write")
		} else {
			fallback = plain[0]
			fl := core.NewFlow(write.Pkg, write.Decl.Body)
			errObj := resultVar(write, atomic[0], 0)
			guarded := false
			for _, g := range fl.GuardsOfNode(plain[0]) {
				for _, a := range g.Atoms() {
					if x, nonNil, ok := a.NilTest(info); ok && nonNil && errObj != nil && core.ObjOf(info, x) == errObj {
						guarded = true
					}
				}
			}
			dom := fl.DominatesNode(atomic[0], plain[0])
			// same path and payload
			sameArgs := len(atomic[0].Args) == len(plain[0].Args)
			if sameArgs {
				for i := range atomic[0].Args {
					if exprStr(atomic[0].Args[i]) != exprStr(plain[0].Args[i]) {
						sameArgs = false
					}
				}
			}
			c.Decide(guarded && dom && sameArgs, "C48.write-order", "d2cli.Write:WritePath-after-failed-AtomicWritePath", plain[0].Pos(),
				"AtomicWritePath dominates; WritePath guarded by its err != nil; same arguments",
				"the plain (truncating) writer in d2cli.Write is not confined to the error branch of the atomic writer")
			// success return of the atomic branch must not fall through to the plain writer
		}
	}
	for _, pk := range importClosure(p, root) {
		for _, fi := range p.Funcs(pk) {
			for _, call := range callsIn(fi, true, fileWriters...) {
				callee := core.FuncName(core.CalleeOf(pk.TypesInfo, call))
				key := "writer:" + fname(fi) + "→" + callee
				if call == fallback {
					c.Pass("C48.who-writes", key, call.Pos(), "the guarded fallback in Write")
					continue
				}
				if callee == "os.OpenFile" && !openFileWrites(pk.TypesInfo, call) {
					c.Pass("C48.who-writes", key, call.Pos(), "OpenFile without O_TRUNC/O_CREATE/O_WRONLY flags")
					continue
				}
				c.Fail("C48.who-writes", key, call.Pos(), "file is created/truncated in place instead of going through d2cli.Write (temp file + rename); a kill between truncate and the last write leaves a partial file")
			}
		}
	}
	c.Floor("C48.who-writes", 1)

	// the atomic writer itself (pinned dependency)
	aw := p.Func("oss.terrastruct.com/util-go/xmain", "State", "AtomicWritePath")
	if aw == nil {
		c.Broken("xmain.(*State).AtomicWritePath not found in the pinned util-go")
		return
	}
	info := aw.Pkg.TypesInfo
	fl := core.NewFlow(aw.Pkg, aw.Decl.Body)
	steps := []string{"os.CreateTemp", "os.(*File).Write", "os.(*File).Close", "os.Rename"}
	var stepCalls []*ast.CallExpr
	for _, s := range steps {
		cs := callsIn(aw, false, s)
		if len(cs) != 1 {
			c.Fail("C48.atomic-seq", "AtomicWritePath:"+s, aw.Decl.Pos(), "expected exactly one call")
			return
		}
		stepCalls = append(stepCalls, cs[0])
	}
	for i := 0; i+1 < len(stepCalls); i++ {
		c.Decide(fl.DominatesNode(stepCalls[i], stepCalls[i+1]), "C48.atomic-seq", "AtomicWritePath:"+steps[i]+"≺"+steps[i+1], stepCalls[i+1].Pos(), "dominates", "step order broken")
	}
	for _, ex := range fl.Exits() {
		if ex.Ret == nil || len(ex.Ret.Results) != 1 || !core.IsNil(info, ex.Ret.Results[0]) {
			continue
		}
		ok, _ := fl.MustPassBefore(ex.Blk, ex.Idx, func(n ast.Node) bool { return n == stepCalls[3] })
		c.Decide(ok, "C48.atomic-seq", "AtomicWritePath:Rename≺return-nil", ex.Ret.Pos(), "rename on every success path", "a success return is reachable without the rename")
	}
	// temp file in the same directory
	dirOK := false
	if len(stepCalls[0].Args) == 2 {
		if obj := core.ObjOf(info, stepCalls[0].Args[0]); obj != nil {
			ast.Inspect(aw.Decl.Body, func(n ast.Node) bool {
				as, ok := n.(*ast.AssignStmt)
				if ok && len(as.Lhs) == 1 && len(as.Rhs) == 1 && core.ObjOf(info, as.Lhs[0]) == obj {
					if call, ok := as.Rhs[0].(*ast.CallExpr); ok && core.IsCallTo(info, call, "path/filepath.Dir") && len(call.Args) == 1 {
						if v, ok := core.ObjOf(info, call.Args[0]).(*types.Var); ok && v == aw.Obj.Type().(*types.Signature).Params().At(0) {
							dirOK = true
						}
					}
				}
				return true
			})
		}
	}
	c.Decide(dirOK, "C48.atomic-seq", "AtomicWritePath:temp-in-target-dir", stepCalls[0].Pos(), "CreateTemp(filepath.Dir(fp), …)", "temp file is not created in the target's directory: rename may cross file systems")
}

func openFileWrites(info *types.Info, call *ast.CallExpr) bool {
	if len(call.Args) < 2 {
		return true
	}
	tv, ok := info.Types[call.Args[1]]
	if !ok || tv.Value == nil {
		return true
	}
	return tv.Value.ExactString() != "0" // os.O_RDONLY == 0
}
