package props

import (
	"fmt"
	"go/ast"
	"go/token"
	"go/types"
	"sort"
	"strings"

	"golang.org/x/tools/go/packages"

	"d2verif/internal/core"
)

// Memo-key completeness. A function is a *memo* when it (1) returns early with a value read from a
// persistent location — a map that hangs off its receiver or a package-level variable, found with a
// comma-ok lookup, or fields of such a location compared with inputs — and (2) later stores into the
// same location. The inputs named in the lookup are the key. The rule: everything the computation
// between lookup and store depends on is part of the key —
//   (a) every parameter of the function that the computation mentions;
//   (b) every field of the receiver that the computation reads (directly or through methods of the
//       same receiver, transitively inside the package) and that some function other than a
//       constructor and other than the computation itself assigns (a *mode* of the object).
// A memo whose key leaves one out returns, for the second of two calls that differ in that input
// only, the result of the first: the output depends on the history of the process.

type memoSite struct {
	fi      *core.FuncInfo
	lookup  *ast.IfStmt
	store   ast.Node
	root    types.Object // the receiver field (map) or package-level variable
	rootStr string
	keyObjs map[types.Object]bool
}

func memoParamExempt(t types.Type) bool {
	s := t.String()
	return s == "context.Context" || strings.HasSuffix(s, "log/slog.Logger") || strings.HasSuffix(s, "testing.T")
}

// persistentRoot: e is rooted at the receiver (returns the first field selected from it) or at a package-level variable.
func persistentRoot(info *types.Info, fi *core.FuncInfo, e ast.Expr) (types.Object, string) {
	var recv types.Object
	if fi.Decl.Recv != nil && len(fi.Decl.Recv.List) > 0 && len(fi.Decl.Recv.List[0].Names) > 0 {
		recv = info.Defs[fi.Decl.Recv.List[0].Names[0]]
	}
	var firstField *ast.SelectorExpr
	for {
		switch x := ast.Unparen(e).(type) {
		case *ast.SelectorExpr:
			if id, ok := x.X.(*ast.Ident); ok {
				if _, isPkg := info.Uses[id].(*types.PkgName); isPkg {
					if v, ok := info.Uses[x.Sel].(*types.Var); ok && !v.IsField() {
						return v, exprStr(x)
					}
					return nil, ""
				}
			}
			firstField = x
			e = x.X
			continue
		case *ast.IndexExpr:
			e = x.X
			firstField = nil
			continue
		case *ast.StarExpr:
			e = x.X
			continue
		case *ast.Ident:
			o := core.ObjOf(info, x)
			if o == nil {
				return nil, ""
			}
			if recv != nil && o == recv && firstField != nil {
				if s, ok := info.Selections[firstField]; ok && s.Kind() == types.FieldVal {
					return s.Obj(), exprStr(firstField)
				}
			}
			if v, ok := o.(*types.Var); ok && !v.IsField() && v.Parent() != nil && v.Pkg() != nil && v.Parent() == v.Pkg().Scope() {
				return v, x.Name
			}
		}
		return nil, ""
	}
}

// findMemos recognises the memo shape in one function.
func findMemos(fi *core.FuncInfo) []*memoSite {
	info := fi.Pkg.TypesInfo
	var out []*memoSite
	for _, st := range fi.Decl.Body.List {
		is, ok := st.(*ast.IfStmt)
		if !ok || is.Else != nil || len(is.Body.List) == 0 {
			continue
		}
		ret, ok := is.Body.List[len(is.Body.List)-1].(*ast.ReturnStmt)
		if !ok || len(ret.Results) == 0 {
			continue
		}
		site := &memoSite{fi: fi, lookup: is, keyObjs: map[types.Object]bool{}}
		var keyExprs []ast.Expr
		// (1a) `if v, ok := ROOT[k]; ok { return … v … }`
		if as, ok := is.Init.(*ast.AssignStmt); ok && len(as.Lhs) == 2 && len(as.Rhs) == 1 {
			if ix, ok := ast.Unparen(as.Rhs[0]).(*ast.IndexExpr); ok {
				if _, isMap := info.TypeOf(ix.X).Underlying().(*types.Map); isMap {
					if r, s := persistentRoot(info, fi, ix.X); r != nil && core.ObjOf(info, is.Cond) == core.ObjOf(info, as.Lhs[1]) {
						v := core.ObjOf(info, as.Lhs[0])
						if v != nil && mentions(info, ret, v) {
							site.root, site.rootStr = r, s
							keyExprs = append(keyExprs, ix.Index)
						}
					}
				}
			}
		}
		// (1b) `if ROOT.a == p && ROOT.b == q { return ROOT.c }`
		if site.root == nil && is.Init == nil {
			var roots []types.Object
			rootStr := ""
			for _, a := range (core.Guard{Cond: is.Cond, True: true}).Atoms() {
				be, ok := ast.Unparen(a.Cond).(*ast.BinaryExpr)
				if !ok || !a.True || be.Op != token.EQL {
					continue
				}
				for _, pair := range [][2]ast.Expr{{be.X, be.Y}, {be.Y, be.X}} {
					if r, s := persistentRoot(info, fi, pair[0]); r != nil {
						if r2, _ := persistentRoot(info, fi, pair[1]); r2 == nil && !core.IsNil(info, pair[1]) {
							roots = append(roots, r)
							rootStr = s
							keyExprs = append(keyExprs, pair[1])
						}
					}
				}
			}
			if len(roots) > 0 {
				same := true
				for _, r := range roots {
					if r != roots[0] {
						same = false
					}
				}
				retReads := false
				for _, res := range ret.Results {
					if r, _ := persistentRoot(info, fi, res); r == roots[0] {
						retReads = true
					}
				}
				if same && retReads {
					site.root, site.rootStr = roots[0], rootStr
				}
			}
		}
		if site.root == nil {
			continue
		}
		// (2) a later store into the same root
		ast.Inspect(fi.Decl.Body, func(n ast.Node) bool {
			as, ok := n.(*ast.AssignStmt)
			if !ok || as.Pos() < is.End() || site.store != nil {
				return true
			}
			for _, l := range as.Lhs {
				if r, _ := persistentRoot(info, fi, l); r == site.root {
					site.store = as
				}
			}
			return true
		})
		if site.store == nil {
			continue
		}
		// key objects: identifiers of the key expressions, through single-definition locals
		var addExpr func(e ast.Node, depth int)
		addExpr = func(e ast.Node, depth int) {
			ast.Inspect(e, func(n ast.Node) bool {
				id, ok := n.(*ast.Ident)
				if !ok {
					return true
				}
				o := info.Uses[id]
				if o == nil || site.keyObjs[o] {
					return true
				}
				site.keyObjs[o] = true
				if depth < 3 {
					if defs := defsOf(fi, o); len(defs) == 1 && defs[0].Rhs != nil && !isParam(fi, o) {
						addExpr(defs[0].Rhs, depth+1)
					}
				}
				return true
			})
		}
		for _, k := range keyExprs {
			addExpr(k, 0)
		}
		out = append(out, site)
	}
	return out
}

// receiverMethodsClosure: methods of the same receiver type called (transitively, inside the package) from the nodes.
func receiverMethodsClosure(c *core.Check, fi *core.FuncInfo, nodes []ast.Node) []*core.FuncInfo {
	info := fi.Pkg.TypesInfo
	sig := fi.Obj.Type().(*types.Signature)
	if sig.Recv() == nil {
		return nil
	}
	recvT := sig.Recv().Type()
	seen := map[*types.Func]bool{fi.Obj: true}
	var out []*core.FuncInfo
	var visit func(n ast.Node, inf *types.Info)
	visit = func(n ast.Node, inf *types.Info) {
		for _, call := range core.Calls(n, true) {
			f := core.CalleeOf(inf, call)
			if f == nil || seen[f] {
				continue
			}
			fs, ok := f.Type().(*types.Signature)
			if !ok || fs.Recv() == nil || !types.Identical(fs.Recv().Type(), recvT) {
				continue
			}
			seen[f] = true
			if d := c.P.Decl(f); d != nil && d.Decl.Body != nil {
				out = append(out, d)
				visit(d.Decl.Body, d.Pkg.TypesInfo)
			}
		}
	}
	for _, n := range nodes {
		visit(n, info)
	}
	return out
}

// checkMemoKeys applies the rule to every function of pkgs; writers are searched in allPkgs.
func checkMemoKeys(c *core.Check, rule string, pkgs, allPkgs []*packages.Package) int {
	nsites := 0
	for _, pk := range pkgs {
		for _, fi := range c.P.Funcs(pk) {
			for _, m := range findMemos(fi) {
				nsites++
				info := fi.Pkg.TypesInfo
				base := fmt.Sprintf("memo:%s:%s", fname(fi), m.rootStr)
				// the computation: statements after the lookup
				var region []ast.Node
				for _, st := range fi.Decl.Body.List {
					if st.Pos() >= m.lookup.End() {
						region = append(region, st)
					}
				}
				// (a) parameters
				sig := fi.Obj.Type().(*types.Signature)
				var missing []string
				for i := 0; i < sig.Params().Len(); i++ {
					p := sig.Params().At(i)
					if m.keyObjs[p] || memoParamExempt(p.Type()) {
						continue
					}
					used := false
					for _, n := range region {
						if mentions(info, n, p) {
							used = true
						}
					}
					if used {
						missing = append(missing, p.Name())
					}
				}
				c.Decide(len(missing) == 0, rule, base+":params", m.lookup.Pos(), "every parameter the computation reads is part of the lookup key", fmt.Sprintf("the memo is found by a key that leaves out %s, which the computation between lookup and store reads: a second call that differs only there gets the first call's result", strings.Join(missing, ", ")))
				// (b) receiver modes
				if sig.Recv() == nil {
					continue
				}
				closure := append([]*core.FuncInfo{}, receiverMethodsClosure(c, fi, region)...)
				inClosure := map[*types.Func]bool{fi.Obj: true}
				for _, d := range closure {
					inClosure[d.Obj] = true
				}
				reads := map[*types.Var]bool{}
				writesIn := map[*types.Var]bool{}
				scan := func(n ast.Node, inf *types.Info) {
					ast.Inspect(n, func(x ast.Node) bool {
						if as, ok := x.(*ast.AssignStmt); ok {
							for _, l := range as.Lhs {
								if f := core.FieldOf(inf, l); f != nil {
									writesIn[f] = true
								}
							}
						}
						if sel, ok := x.(*ast.SelectorExpr); ok {
							if f := core.FieldOf(inf, sel); f != nil {
								reads[f] = true
							}
						}
						return true
					})
				}
				for _, n := range region {
					scan(n, info)
				}
				for _, d := range closure {
					scan(d.Decl.Body, d.Pkg.TypesInfo)
				}
				// fields of the receiver's struct
				recvT := sig.Recv().Type()
				if p, ok := recvT.(*types.Pointer); ok {
					recvT = p.Elem()
				}
				st, ok := recvT.Underlying().(*types.Struct)
				if !ok {
					continue
				}
				own := map[*types.Var]bool{}
				for i := 0; i < st.NumFields(); i++ {
					own[st.Field(i)] = true
				}
				// direct assignments elsewhere (not in constructors, not in the computation)
				modes := map[string]string{}
				for _, apk := range allPkgs {
					for _, ofi := range c.P.Funcs(apk) {
						if inClosure[ofi.Obj] {
							continue
						}
						constructs := false
						ast.Inspect(ofi.Decl.Body, func(x ast.Node) bool {
							if cl, ok := x.(*ast.CompositeLit); ok {
								if t := apk.TypesInfo.TypeOf(cl); t != nil && types.Identical(t, recvT) {
									constructs = true
								}
							}
							return true
						})
						if constructs {
							continue
						}
						ast.Inspect(ofi.Decl.Body, func(x ast.Node) bool {
							as, ok := x.(*ast.AssignStmt)
							if !ok {
								return true
							}
							for _, l := range as.Lhs {
								if _, isSel := ast.Unparen(l).(*ast.SelectorExpr); !isSel {
									continue // element updates of a map or slice field are not a change of mode
								}
								f := core.FieldOf(apk.TypesInfo, l)
								if f == nil || !own[f] || !reads[f] || writesIn[f] || f == m.root {
									continue
								}
								if mentionsField(info, m, f) {
									continue
								}
								if _, dup := modes[f.Name()]; !dup {
									modes[f.Name()] = fname(ofi)
								}
							}
							return true
						})
					}
				}
				var names []string
				for n := range modes {
					names = append(names, n)
				}
				sort.Strings(names)
				var detail []string
				for _, n := range names {
					detail = append(detail, n+" (set by "+modes[n]+")")
				}
				c.Decide(len(names) == 0, rule, base+":modes", m.lookup.Pos(), "no field that other code assigns is read by the computation without being part of the key", fmt.Sprintf("the computation reads the receiver's %s, which the lookup key leaves out: the remembered result of one mode is returned in the other", strings.Join(detail, ", ")))
			}
		}
	}
	return nsites
}

// mentionsField: the key expressions of the memo select field f of the receiver.
func mentionsField(info *types.Info, m *memoSite, f *types.Var) bool {
	found := false
	check := func(n ast.Node) {
		ast.Inspect(n, func(x ast.Node) bool {
			if sel, ok := x.(*ast.SelectorExpr); ok && core.FieldOf(info, sel) == f {
				found = true
			}
			return !found
		})
	}
	if m.lookup.Init != nil {
		check(m.lookup.Init)
	}
	check(m.lookup.Cond)
	// single-definition locals used in the key
	for o := range m.keyObjs {
		if isParam(m.fi, o) {
			continue
		}
		for _, d := range defsOf(m.fi, o) {
			if d.Rhs != nil {
				check(d.Rhs)
			}
		}
	}
	return found
}
