package props

import (
	"fmt"
	"go/ast"
	"go/token"
	"go/types"
	"sort"
	"strings"

	"golang.org/x/tools/go/packages"

	"d2verif/internal/core"
)

// mustFunc resolves an anchor function; an unresolved anchor makes the check fail as undecided.
func mustFunc(c *core.Check, pkg, recv, name string) *core.FuncInfo {
	fi := c.P.Func(pkg, recv, name)
	if fi == nil || fi.Decl.Body == nil {
		r := name
		if recv != "" {
			r = "(" + recv + ")." + name
		}
		c.Broken("anchor %s.%s not found in the current tree: the rule cannot be instantiated", pkg, r)
		return nil
	}
	return fi
}

// callsIn returns the calls in a function (including nested literals when lits) whose static
// callee's FuncName is one of names.
func callsIn(fi *core.FuncInfo, lits bool, names ...string) []*ast.CallExpr {
	var out []*ast.CallExpr
	for _, call := range core.Calls(fi.Decl.Body, lits) {
		if core.IsCallTo(fi.Pkg.TypesInfo, call, names...) {
			out = append(out, call)
		}
	}
	return out
}

// importClosure returns the repository packages transitively imported by root (inclusive).
func importClosure(p *core.Prog, root *packages.Package) []*packages.Package {
	seen := map[string]bool{}
	var out []*packages.Package
	var visit func(pk *packages.Package)
	visit = func(pk *packages.Package) {
		if pk == nil || seen[pk.PkgPath] {
			return
		}
		seen[pk.PkgPath] = true
		if pk.PkgPath == core.Mod || strings.HasPrefix(pk.PkgPath, core.Mod+"/") {
			if len(pk.Syntax) > 0 {
				out = append(out, pk)
			}
		}
		for _, imp := range pk.Imports {
			visit(imp)
		}
	}
	visit(root)
	sort.Slice(out, func(i, j int) bool { return out[i].PkgPath < out[j].PkgPath })
	return out
}

// enclosingFunc returns the declared function containing pos in pk.
func enclosingFunc(p *core.Prog, pk *packages.Package, n ast.Node) *core.FuncInfo {
	for _, fi := range p.Funcs(pk) {
		if fi.Decl.Pos() <= n.Pos() && n.End() <= fi.Decl.End() {
			return fi
		}
	}
	return nil
}

func exprStr(e ast.Expr) string { return types.ExprString(e) }

func fname(fi *core.FuncInfo) string { return core.FuncName(fi.Obj) }

// errVarOfCall: for `err := f()` / `x, err = f()` / `if err := f(); …` returns the object that
// receives the call's last (error) result, or nil.
func resultVar(fi *core.FuncInfo, call *ast.CallExpr, idxFromEnd int) types.Object {
	var found types.Object
	ast.Inspect(fi.Decl.Body, func(n ast.Node) bool {
		as, ok := n.(*ast.AssignStmt)
		if !ok || len(as.Rhs) != 1 || ast.Unparen(as.Rhs[0]) != call {
			return true
		}
		i := len(as.Lhs) - 1 - idxFromEnd
		if i >= 0 {
			found = core.ObjOf(fi.Pkg.TypesInfo, as.Lhs[i])
		}
		return false
	})
	return found
}

func sortedKeys[V any](m map[string]V) []string {
	var out []string
	for k := range m {
		out = append(out, k)
	}
	sort.Strings(out)
	return out
}

func setDiff(a, b map[string]bool) []string {
	var out []string
	for k := range a {
		if !b[k] {
			out = append(out, k)
		}
	}
	sort.Strings(out)
	return out
}

func fmtSet(m map[string]bool) string {
	return fmt.Sprintf("{%s}", strings.Join(sortedKeys(m), ","))
}

// defSite is one assignment to a local variable.
type defSite struct {
	Rhs   ast.Expr // the right-hand side expression (a call for multi-value assignments)
	Index int      // result index when Rhs is a multi-value call, else 0
	Multi bool
	Stmt  ast.Node
}

// defsOf lists every definition/assignment of obj inside the function body (including closures).
// Range/type-switch bindings and address-taken mutations are reported with Rhs == nil.
func defsOf(fi *core.FuncInfo, obj types.Object) []defSite {
	info := fi.Pkg.TypesInfo
	var out []defSite
	ast.Inspect(fi.Decl.Body, func(n ast.Node) bool {
		switch s := n.(type) {
		case *ast.AssignStmt:
			for i, l := range s.Lhs {
				if core.ObjOf(info, l) != obj {
					continue
				}
				if len(s.Rhs) == len(s.Lhs) {
					out = append(out, defSite{Rhs: s.Rhs[i], Stmt: s})
				} else if len(s.Rhs) == 1 {
					out = append(out, defSite{Rhs: s.Rhs[0], Index: i, Multi: true, Stmt: s})
				}
			}
		case *ast.ValueSpec:
			for i, name := range s.Names {
				if info.Defs[name] != obj {
					continue
				}
				if len(s.Values) == len(s.Names) {
					out = append(out, defSite{Rhs: s.Values[i], Stmt: s})
				} else if len(s.Values) == 1 {
					out = append(out, defSite{Rhs: s.Values[0], Index: i, Multi: true, Stmt: s})
				} else {
					out = append(out, defSite{Rhs: nil, Stmt: s}) // zero value
				}
			}
		case *ast.RangeStmt:
			if (s.Key != nil && core.ObjOf(info, s.Key) == obj) || (s.Value != nil && core.ObjOf(info, s.Value) == obj) {
				out = append(out, defSite{Rhs: nil, Stmt: s})
			}
		case *ast.IncDecStmt:
			if core.ObjOf(info, s.X) == obj {
				out = append(out, defSite{Rhs: nil, Stmt: s})
			}
		case *ast.UnaryExpr:
			if s.Op.String() == "&" && core.ObjOf(info, s.X) == obj {
				// address taken: may be written elsewhere; only flag for non-struct scalars
				if _, isStruct := obj.Type().Underlying().(*types.Struct); !isStruct {
					out = append(out, defSite{Rhs: nil, Stmt: s})
				}
			}
		}
		return true
	})
	return out
}

// isParam reports whether obj is a parameter (or receiver) of the function.
func isParam(fi *core.FuncInfo, obj types.Object) bool {
	sig := fi.Obj.Type().(*types.Signature)
	for i := 0; i < sig.Params().Len(); i++ {
		if sig.Params().At(i) == obj {
			return true
		}
	}
	return sig.Recv() != nil && sig.Recv() == obj
}

// loopsVisitAll: in fi, every range loop over a field named in fields (e.g. diagram.Shapes) visits all elements —
// its body has no continue, break, goto or return (function literals excluded). Returns the number of loops found.
func loopsVisitAll(c *core.Check, rule string, fi *core.FuncInfo, fields []string, consequence string) int {
	n := 0
	counts := map[string]int{}
	ast.Inspect(fi.Decl.Body, func(x ast.Node) bool {
		rs, ok := x.(*ast.RangeStmt)
		if !ok {
			return true
		}
		sel, ok := ast.Unparen(rs.X).(*ast.SelectorExpr)
		if !ok {
			return true
		}
		hit := false
		for _, f := range fields {
			if sel.Sel.Name == f {
				hit = true
			}
		}
		if !hit {
			return true
		}
		n++
		skip := ""
		ast.Inspect(rs.Body, func(y ast.Node) bool {
			switch s := y.(type) {
			case *ast.FuncLit:
				return false
			case *ast.RangeStmt, *ast.ForStmt:
				// a break/continue of an inner loop concerns the inner loop; returns still leave the outer one
				ast.Inspect(y, func(z ast.Node) bool {
					if _, ok := z.(*ast.FuncLit); ok {
						return false
					}
					if r, ok := z.(*ast.ReturnStmt); ok && skip == "" {
						skip = fmt.Sprintf("return (line %d)", c.P.Fset.Position(r.Pos()).Line)
					}
					return true
				})
				return false
			case *ast.BranchStmt:
				if skip == "" {
					skip = fmt.Sprintf("%s (line %d)", s.Tok, c.P.Fset.Position(s.Pos()).Line)
				}
			case *ast.ReturnStmt:
				if skip == "" {
					skip = fmt.Sprintf("return (line %d)", c.P.Fset.Position(s.Pos()).Line)
				}
			}
			return true
		})
		key := fmt.Sprintf("visit-all:%s:range %s", fname(fi), exprStr(rs.X))
		counts[key]++
		if counts[key] > 1 {
			key = fmt.Sprintf("%s#%d", key, counts[key])
		}
		c.Decide(skip == "", rule, key, rs.Pos(), "no element is skipped", fmt.Sprintf("the loop over %s leaves out elements (%s): %s", exprStr(rs.X), skip, consequence))
		return true
	})
	return n
}

// sortsGraph: nd is a call g.<method>() on the graph g, or a call of a function of the package that receives g and
// (within two levels) calls <method> on the parameter it received g in.
func sortsGraph(c *core.Check, info *types.Info, nd ast.Node, g types.Object, method string, depth int) bool {
	call, isCall := nd.(*ast.CallExpr)
	if !isCall {
		return false
	}
	if core.IsCallTo(info, call, "d2graph.(*Graph)."+method) {
		if sel, ok := call.Fun.(*ast.SelectorExpr); ok && core.ObjOf(info, sel.X) == g {
			return true
		}
		return false
	}
	if depth >= 2 {
		return false
	}
	callee := core.CalleeOf(info, call)
	if callee == nil {
		return false
	}
	h := c.P.Decl(callee)
	if h == nil || h.Decl.Body == nil {
		return false
	}
	sig := callee.Type().(*types.Signature)
	for ai, a := range call.Args {
		if core.ObjOf(info, a) != g || ai >= sig.Params().Len() {
			continue
		}
		hp := sig.Params().At(ai)
		// every exit of the helper has passed the sort of its parameter
		hfl := core.NewFlow(h.Pkg, h.Decl.Body)
		all := true
		nex := 0
		for _, ex := range hfl.Exits() {
			nex++
			ok, _ := hfl.MustPassBefore(ex.Blk, ex.Idx, func(m ast.Node) bool {
				return sortsGraph(c, h.Pkg.TypesInfo, m, hp, method, depth+1)
			})
			if !ok {
				all = false
			}
		}
		if all && nex > 0 {
			return true
		}
	}
	return false
}

// sliceEqualityIssues: a function that walks one slice, compares each element with the element of another slice
// at the same index, answers false on a difference and true at the end, decides equality only when it also compares
// the two lengths (in the function, or — for a helper with two slice parameters — it is enough that the function
// itself does; a prefix test has to say so by not returning true for the longer one).
type sliceEqIssue struct {
	Fi   *core.FuncInfo
	Pos  token.Pos
	Key  string
	Text string
}

func sliceEqualityIssues(p *core.Prog, pkgs []*packages.Package) (issues []sliceEqIssue, n int) {
	for _, pk := range pkgs {
		for _, fi := range p.Funcs(pk) {
			if fi.Decl.Body == nil {
				continue
			}
			sig := fi.Obj.Type().(*types.Signature)
			if sig.Results().Len() != 1 {
				continue
			}
			if b, ok := sig.Results().At(0).Type().Underlying().(*types.Basic); !ok || b.Kind() != types.Bool {
				continue
			}
			// a function that says it is a prefix test is one
			if ln := strings.ToLower(fi.Decl.Name.Name); strings.Contains(ln, "prefix") || strings.Contains(ln, "startswith") {
				continue
			}
			info := fi.Pkg.TypesInfo
			counts := map[string]int{}
			ast.Inspect(fi.Decl.Body, func(nd ast.Node) bool {
				rs, ok := nd.(*ast.RangeStmt)
				if !ok || rs.Key == nil {
					return true
				}
				if _, isSlice := info.TypeOf(rs.X).Underlying().(*types.Slice); !isSlice {
					return true
				}
				idx := core.ObjOf(info, rs.Key)
				if idx == nil {
					return true
				}
				// the other slice: B[idx] inside the body, B a different expression of slice type
				var other ast.Expr
				ast.Inspect(rs.Body, func(m ast.Node) bool {
					ix, ok := m.(*ast.IndexExpr)
					if !ok || core.ObjOf(info, ix.Index) != idx || exprStr(ix.X) == exprStr(rs.X) {
						return true
					}
					if _, isSlice := info.TypeOf(ix.X).Underlying().(*types.Slice); isSlice {
						other = ix.X
					}
					return true
				})
				if other == nil {
					return true
				}
				// the body returns false somewhere
				retFalse := core.Contains(rs.Body, func(m ast.Node) bool {
					r, ok := m.(*ast.ReturnStmt)
					return ok && len(r.Results) == 1 && exprStr(r.Results[0]) == "false"
				})
				if !retFalse {
					return true
				}
				n++
				a, b := exprStr(rs.X), exprStr(other)
				lenCmp := false
				ast.Inspect(fi.Decl.Body, func(m ast.Node) bool {
					be, ok := m.(*ast.BinaryExpr)
					if !ok || (be.Op != token.EQL && be.Op != token.NEQ) {
						return true
					}
					l, r := exprStr(be.X), exprStr(be.Y)
					if (l == "len("+a+")" && r == "len("+b+")") || (l == "len("+b+")" && r == "len("+a+")") {
						lenCmp = true
					}
					return true
				})
				if lenCmp {
					return true
				}
				key := fmt.Sprintf("slice-equality:%s:%s~%s", fname(fi), a, b)
				counts[key]++
				if counts[key] > 1 {
					key = fmt.Sprintf("%s#%d", key, counts[key])
				}
				issues = append(issues, sliceEqIssue{fi, rs.Pos(), key, fmt.Sprintf("%s compares %s with %s element by element and never compares their lengths: a path that is a proper prefix of the other counts as equal", fname(fi), a, b)})
				return true
			})
		}
	}
	return
}
