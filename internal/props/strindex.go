package props

import (
	"go/token"
	"go/types"
	"strings"

	"golang.org/x/tools/go/ssa"

	"d2verif/internal/core"
)

// E4a — index provenance: an offset computed by strings.Index*/LastIndex* on string A may only
// slice or index A itself. Transformations (ToLower, ToUpper, Trim*, Replace*, conversions) are
// never assumed length-preserving.

type strIndexUse struct {
	fn     *ssa.Function
	pos    token.Pos
	finder string
	ok     bool
	detail string
}

var indexFinders = map[string]bool{
	"strings.Index": true, "strings.LastIndex": true, "strings.IndexByte": true, "strings.IndexRune": true, "strings.IndexAny": true,
	"strings.LastIndexByte": true, "strings.LastIndexAny": true, "strings.IndexFunc": true, "strings.LastIndexFunc": true,
	"bytes.Index": true, "bytes.LastIndex": true, "bytes.IndexByte": true, "bytes.LastIndexByte": true, "bytes.IndexRune": true,
}

// derivesFrom: v is j, or j ± something, or a phi/convert of such.
func derivesFrom(v, j ssa.Value, depth int) bool {
	if v == j {
		return true
	}
	if depth > 6 {
		return false
	}
	switch x := v.(type) {
	case *ssa.BinOp:
		if x.Op == token.ADD || x.Op == token.SUB {
			return derivesFrom(x.X, j, depth+1) || derivesFrom(x.Y, j, depth+1)
		}
	case *ssa.Convert:
		return derivesFrom(x.X, j, depth+1)
	case *ssa.ChangeType:
		return derivesFrom(x.X, j, depth+1)
	case *ssa.Phi:
		for _, e := range x.Edges {
			if e != v && derivesFrom(e, j, depth+1) {
				return true
			}
		}
	}
	return false
}

// rebased: v derives from j, and every phi edge (or v itself) that carries j also adds `off`: an offset found
// in root[off:] becomes an offset into root once off is added.
func rebased(v, j, off ssa.Value, depth int) bool {
	if depth > 6 {
		return false
	}
	if phi, ok := v.(*ssa.Phi); ok {
		any := false
		for _, e := range phi.Edges {
			if e == v || !derivesFrom(e, j, depth+1) {
				continue
			}
			any = true
			if !rebased(e, j, off, depth+1) {
				return false
			}
		}
		return any
	}
	return derivesFrom(v, j, 0) && derivesFrom(v, off, 0)
}

func strIndexUses(p *core.Prog, rels []string) []strIndexUse {
	var out []strIndexUse
	for _, rel := range rels {
		for _, f := range p.SrcFuncs(rel) {
			for _, b := range f.Blocks {
				for _, in := range b.Instrs {
					call, ok := in.(*ssa.Call)
					if !ok {
						continue
					}
					cal := call.Call.StaticCallee()
					if cal == nil || !indexFinders[cal.String()] || len(call.Call.Args) == 0 {
						continue
					}
					searched := call.Call.Args[0]
					// every slice/index in the function whose bound derives from the result
					for _, b2 := range f.Blocks {
						for _, in2 := range b2.Instrs {
							switch s := in2.(type) {
							case *ssa.Slice:
								uses := (s.Low != nil && derivesFrom(s.Low, call, 0)) || (s.High != nil && derivesFrom(s.High, call, 0))
								if !uses {
									continue
								}
								if _, isStr := s.X.Type().Underlying().(*types.Basic); !isStr {
									if _, isSl := s.X.Type().Underlying().(*types.Slice); !isSl {
										continue
									}
								}
								same := s.X == searched
								if !same {
									// searched = root[off:], applied to root with off added back
									if ss, ok := searched.(*ssa.Slice); ok && ss.High == nil && ss.Low != nil && ss.X == s.X {
										okLow := s.Low == nil || !derivesFrom(s.Low, call, 0) || rebased(s.Low, call, ss.Low, 0)
										okHigh := s.High == nil || !derivesFrom(s.High, call, 0) || rebased(s.High, call, ss.Low, 0)
										same = okLow && okHigh
									}
								}
								out = append(out, strIndexUse{f, s.Pos(), cal.String(), same, describeMismatch(searched, s.X)})
							case *ssa.Index:
								if derivesFrom(s.Index, call, 0) {
									same := s.X == searched
									out = append(out, strIndexUse{f, s.Pos(), cal.String(), same, describeMismatch(searched, s.X)})
								}
							}
						}
					}
				}
			}
		}
	}
	return out
}

func describeMismatch(searched, sliced ssa.Value) string {
	d := "offset found in " + valueDesc(searched) + " is applied to " + valueDesc(sliced)
	if ss, ok := searched.(*ssa.Slice); ok && ss.X == sliced {
		d = "offset found in a suffix of the string (" + valueDesc(searched) + ") is applied to the whole string without adding the suffix's start back"
	}
	if c, ok := searched.(*ssa.Call); ok {
		if cal := c.Call.StaticCallee(); cal != nil && strings.HasPrefix(cal.String(), "strings.To") {
			d += " (case mapping can change the byte length, e.g. \"Ⱥ\" → \"ⱥ\")"
		}
	}
	return d
}

func valueDesc(v ssa.Value) string {
	switch x := v.(type) {
	case *ssa.Call:
		if cal := x.Call.StaticCallee(); cal != nil {
			return cal.String() + "(…)"
		}
	case *ssa.Parameter:
		return "parameter " + x.Name()
	}
	return v.Name() + " (" + v.String() + ")"
}
