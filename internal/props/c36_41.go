package props

import (
	"fmt"
	"go/ast"
	"go/token"
	"go/types"
	"strings"

	"golang.org/x/tools/go/cfg"
	"golang.org/x/tools/go/packages"

	"d2verif/internal/core"
)

func init() {
	register(&Prop{
		ID:       "C36",
		Title:    "Editing produces compilable, formatter-stable source",
		Patterns: []string{"./d2oracle", "./d2ast", "./d2graph"},
		Explanation: "Decides shape clauses of d2oracle's mutators (exported functions that take a board path and return a graph): (1) every success return gives back the graph produced by recompile — compiled from d2format.Format of the edited AST — or the caller's graph on a path on which no AST-mutating helper (a function that, transitively inside the package, assigns to a field of a d2ast node) was called; " +
			"(2) every string node the oracle builds from a non-constant value is made by d2ast.RawString (never FlatUnquotedString/FlatDoubleQuotedString or a struct literal), so the quoting guarantees of C05 apply to every edit; " +
			"(3) loops that delete the current element of the slice they index (x = append(x[:i], x[i+1:]...) / slices.Delete) step the index back or leave the loop on that path — otherwise the element that slides into the slot is skipped (import removal leaves dangling imports); (4) in UpdateImport's path matching, a pattern that was tested to end with the separator is not reassigned before it is used as the directory prefix under that test (a cleaned pattern loses the separator and foo/ matches foobar/x).",
		NotCovered: "that the recompile succeeds, formatter stability of the result, semantic correctness of each edit (C38–C40), path-prefix logic of UpdateImport beyond the separator clause",
		Technique:  "static analysis: returned-value provenance and must-not-pass queries on go/cfg, who-constructs inventory, delete-in-loop index discipline, stale-fact query (suffix test / prefix use)",
		Run:        runC36,
	})
	register(&Prop{
		ID:       "C41",
		Title:    "Edits on a board stay within that board",
		Patterns: []string{"./d2oracle", "./d2ast", "./d2graph"},
		Explanation: "Decides, for every mutator of d2oracle: (1) the nested board graph (GetBoardGraph) and its BaseAST are tested against nil before use; (2) on every path on which the board path is non-empty, the root graph is recompiled only after ReplaceBoardNode put the edited board AST back (paths are enumerated on the CFG restricted to the true branches of `len(boardPath) > 0`); " +
			"(3) the root AST (g.AST) is never handed to an AST-mutating helper directly: it is only aliased as the base AST of the root board and passed to ReplaceBoardNode; (4) writeable-reference discipline: every comparison of the number of writeable references of an element (GetWriteableRefs / GetWriteableEdgeRefs) is against the number of all references of the same element or against zero (the all-or-null decision), and where a function narrowed a reference list to the writeable ones it does not range over the raw list afterwards; (5) board-scope discipline of the mutators — a mutator that resolved the addressed board does not look elements up on the root graph again; calls between functions that take a board path pass it on (never nil); for every element whose references a mutator rewrites through (or picks its insertion scope from) the mutator first asks which references are writeable; helpers that skip references by comparing with the writeable AST compare the board (ScopeAST), not only the file; and in _set every in-place rewrite of an attribute's or label's own key is under a condition that establishes that the key node is part of the addressed board's AST (a predicate comparing node identities against the base AST, or the root-board test).",
		NotCovered: "that unrelated boards compile to the same content (semantic); loops over raw reference lists in helpers that rely on the caller's all-or-null decision (deleteObject, the body of move after its OutsideScope test); that a refused or no-op edit is the right answer (a Delete of an inherited attribute now leaves the board unchanged instead of nulling it); mutation of the caller's AST on refused edits",
		Technique:  "static analysis: guard-dominance, edge-filtered must-pass-through on go/cfg, argument provenance",
		Run:        runC41,
	})
	register(&Prop{
		ID:       "C37",
		Title:    "Create and Set change exactly what they name",
		Patterns: []string{"./d2oracle", "./d2ast", "./d2graph", "./d2format", "./d2parser"},
		Explanation: "Decides four narrow clauses: (1) every key returned by generateUniqueKey is returned on a path on which an existence test of that key failed (HasChild/HasEdge reported false, or the object found is the one being ignored) — so Create never returns the ID of an existing element; " +
			"(2) the value _set writes is the API argument passed through d2ast.RawString and nothing else (no other string-node constructor sees a non-constant value in d2oracle); (3) RawString in value context quotes every string the parser would read back as something else (null, suspend, unsuspend and the booleans in any letter case, delimiters, escapes keep their case) — the C05 generator clauses for values, adopted here because Set's exactness rests on them; (4) after a mutator resolved the addressed board, element lookups and generateUniqueKey run on the board's graph, not on the root graph (the C41 board-root clause): a name that exists only on the board is otherwise returned as new; (5) in _set every overwrite of the key an attribute or the label came from (X.MapKey.SetScalar) is guarded by a predicate that refuses a key with a glob, a key inside the map of a glob (searched from the base AST) and a key inside a class, and the whole value of an existing key is replaced by the new scalar only in the arm where the key has no map.",
		NotCovered: "that every other element is unchanged, that the created element has the returned ID after recompilation",
		Technique:  "static analysis: guard queries on go/cfg, who-constructs inventory",
		Run:        runC37,
	})
}

// oracleMutators: exported functions with a boardPath parameter returning *d2graph.Graph first.
func oracleMutators(c *core.Check) []*core.FuncInfo {
	pk := c.P.Pkg("d2oracle")
	if pk == nil {
		c.Broken("d2oracle not loaded")
		return nil
	}
	var out []*core.FuncInfo
	for _, fi := range c.P.Funcs(pk) {
		if fi.Decl.Recv != nil {
			continue
		}
		sig := fi.Obj.Type().(*types.Signature)
		if sig.Results().Len() < 2 || !strings.HasSuffix(types.TypeString(sig.Results().At(0).Type(), nil), "d2graph.Graph") {
			continue
		}
		hasBP := false
		for i := 0; i < sig.Params().Len(); i++ {
			if sig.Params().At(i).Name() == "boardPath" {
				hasBP = true
			}
		}
		if hasBP {
			out = append(out, fi)
		}
	}
	if len(out) < 5 {
		c.Broken("only %d oracle mutators found", len(out))
	}
	return out
}

// astMutators: functions of d2oracle that (transitively) assign to a field of a d2ast node.
func astMutators(c *core.Check) map[*types.Func]bool {
	pk := c.P.Pkg("d2oracle")
	info := pk.TypesInfo
	direct := map[*types.Func]bool{}
	calls := map[*types.Func][]*types.Func{}
	isAstField := func(e ast.Expr) bool {
		e = ast.Unparen(e)
		if ix, ok := e.(*ast.IndexExpr); ok {
			e = ast.Unparen(ix.X)
		}
		if st, ok := e.(*ast.StarExpr); ok {
			e = ast.Unparen(st.X)
		}
		sel, ok := e.(*ast.SelectorExpr)
		if !ok {
			return false
		}
		s, ok := info.Selections[sel]
		if !ok || s.Kind() != types.FieldVal {
			return false
		}
		nt := namedOf(s.Recv())
		return nt != nil && nt.Obj().Pkg() != nil && core.RelPkg(nt.Obj().Pkg().Path()) == "d2ast"
	}
	for _, fi := range c.P.Funcs(pk) {
		ast.Inspect(fi.Decl.Body, func(n ast.Node) bool {
			switch s := n.(type) {
			case *ast.AssignStmt:
				for _, l := range s.Lhs {
					if isAstField(l) {
						direct[fi.Obj] = true
					}
				}
			case *ast.IncDecStmt:
				if isAstField(s.X) {
					direct[fi.Obj] = true
				}
			case *ast.CallExpr:
				if f := core.CalleeOf(info, s); f != nil && f.Pkg() == pk.Types {
					calls[fi.Obj] = append(calls[fi.Obj], f.Origin())
				}
				// methods of d2ast nodes that mutate (InsertAfter/InsertBefore/...): pointer-receiver methods of d2ast.Map
				if f := core.CalleeOf(info, s); f != nil && f.Pkg() != nil && core.RelPkg(f.Pkg().Path()) == "d2ast" {
					if strings.HasPrefix(f.Name(), "Insert") || strings.HasPrefix(f.Name(), "Set") {
						direct[fi.Obj] = true
					}
				}
			}
			return true
		})
	}
	for changed := true; changed; {
		changed = false
		for f, cs := range calls {
			if direct[f] {
				continue
			}
			for _, g := range cs {
				if direct[g] {
					direct[f] = true
					changed = true
				}
			}
		}
	}
	return direct
}

var staleReturnExceptions = map[string]string{
	"d2oracle.Delete": "the second HasChild after renameConflictsToParent cannot fail: the rename only touches children of the object, which was found just before (kept as a reviewed belief; the return would hand back the pre-edit graph)",
}

// runC36SuffixPrefix: a string that was tested to end with a separator and is then used as a *prefix* under that
// test (a directory match) still ends with the separator: nothing that may strip it (any reassignment of the
// variable) executes between the suffix test and the prefix test.
func runC36SuffixPrefix(c *core.Check) {
	c.Rule("C36.suffix-then-prefix", "a pattern tested to end with the separator is unchanged when it is used as a prefix under that test")
	pk := c.P.Pkg("d2oracle")
	if pk == nil {
		return
	}
	info := pk.TypesInfo
	n := 0
	for _, fi := range c.P.Funcs(pk) {
		if fi.Decl.Body == nil {
			continue
		}
		type fact struct {
			p      types.Object
			anchor ast.Node
		}
		flags := map[types.Object]fact{}
		suffixOf := func(e ast.Expr) (types.Object, bool) {
			call, ok := ast.Unparen(e).(*ast.CallExpr)
			if !ok || !core.IsCallTo(info, call, "strings.HasSuffix") || len(call.Args) != 2 {
				return nil, false
			}
			if tv, ok := info.Types[call.Args[1]]; !ok || tv.Value == nil {
				return nil, false
			}
			o := core.ObjOf(info, call.Args[0])
			return o, o != nil
		}
		ast.Inspect(fi.Decl.Body, func(x ast.Node) bool {
			as, ok := x.(*ast.AssignStmt)
			if !ok || len(as.Lhs) != 1 || len(as.Rhs) != 1 {
				return true
			}
			if o, ok := suffixOf(as.Rhs[0]); ok {
				if b := core.ObjOf(info, as.Lhs[0]); b != nil {
					flags[b] = fact{o, as}
				}
			}
			return true
		})
		var fl *core.Flow
		for _, call := range core.Calls(fi.Decl.Body, false) {
			if !core.IsCallTo(info, call, "strings.HasPrefix") || len(call.Args) != 2 {
				continue
			}
			p := core.ObjOf(info, call.Args[1])
			if p == nil {
				continue
			}
			if fl == nil {
				fl = core.NewFlow(fi.Pkg, fi.Decl.Body)
			}
			for _, g := range fl.GuardsOfNode(call) {
				for _, a := range g.Atoms() {
					if !a.True {
						continue
					}
					var anchor ast.Node
					if id, ok := ast.Unparen(a.Cond).(*ast.Ident); ok {
						if f, ok := flags[info.Uses[id]]; ok && f.p == p {
							anchor = f.anchor
						}
					} else if o, ok := suffixOf(a.Cond); ok && o == p {
						anchor = a.Cond
					}
					if anchor == nil {
						continue
					}
					n++
					mod := modifiedOnPath(fi, fl, anchor, call, map[types.Object]bool{p: true}, nil)
					c.Decide(!mod, "C36.suffix-then-prefix", "suffix-prefix:"+fname(fi)+":"+p.Name(), call.Pos(), "not reassigned between the suffix test and the prefix test",
						fmt.Sprintf("%s was tested to end with the separator, but it is reassigned before strings.HasPrefix uses it as the directory prefix: when the new value lost the separator (path.Clean, TrimSuffix), an import of foobar/x matches the directory foo/ and is rewritten", p.Name()))
				}
			}
		}
	}
	if n == 0 {
		c.Fail("C36.suffix-then-prefix", "suffix-prefix:inventory", token.NoPos, "no directory-prefix test found in d2oracle")
	}
}

func runC36(c *core.Check) {
	runC36SuffixPrefix(c)
	c.Rule("C36.recompiled", "success returns of a mutator give back a recompiled graph, or the input graph on a path without AST mutation")
	c.Rule("C36.rawstring", "string nodes built from non-constant values are made by d2ast.RawString")
	c.Rule("C36.delete-in-loop", "a loop that deletes the current element of the slice it indexes steps the index back or leaves the loop")
	muts := oracleMutators(c)
	if muts == nil {
		return
	}
	pk := c.P.Pkg("d2oracle")
	info := pk.TypesInfo
	mutating := astMutators(c)
	isRecompile := func(e ast.Expr) bool {
		call, ok := ast.Unparen(e).(*ast.CallExpr)
		return ok && core.IsCallTo(info, call, "d2oracle.recompile")
	}
	for _, fi := range muts {
		fl := core.NewFlow(pk, fi.Decl.Body)
		gParam := fi.Obj.Type().(*types.Signature).Params().At(0)
		n := 0
		for _, ex := range fl.Exits() {
			if ex.Ret == nil || len(ex.Ret.Results) == 0 {
				continue
			}
			last := ex.Ret.Results[len(ex.Ret.Results)-1]
			if len(ex.Ret.Results) == 1 {
				// return recompile(g)
				if isRecompile(last) {
					n++
					c.Pass("C36.recompiled", "ret:"+fname(fi), ex.Ret.Pos(), "return recompile(…)")
				} else if call, ok := ast.Unparen(last).(*ast.CallExpr); ok {
					// delegation to another mutator of the package, judged on its own
					if f := core.CalleeOf(info, call); f != nil && f.Pkg() == pk.Types {
						isMut := false
						for _, m := range muts {
							if m.Obj == f.Origin() {
								isMut = true
							}
						}
						n++
						c.Decide(isMut, "C36.recompiled", "ret:"+fname(fi), ex.Ret.Pos(), "delegates to "+f.Name()+", a mutator judged by the same rule", "delegates to "+f.Name()+", which is not judged as a mutator")
					}
				}
				continue
			}
			if !core.IsNil(info, last) {
				// `return g, x, err` with an error variable: a success when err is nil
				if _, isIdent := ast.Unparen(last).(*ast.Ident); !isIdent {
					continue
				}
			}
			first := ex.Ret.Results[0]
			if core.IsNil(info, first) {
				continue
			}
			n++
			key := "ret:" + fname(fi)
			if isRecompile(first) {
				c.Pass("C36.recompiled", key, ex.Ret.Pos(), "recompile result")
				continue
			}
			o := core.ObjOf(info, first)
			if o == nil {
				c.Fail("C36.recompiled", key, ex.Ret.Pos(), "success return of an expression the rule cannot trace: "+exprStr(first))
				continue
			}
			// nearest preceding definition from recompile / from another mutator-like helper returning a graph
			var lastDef *defSite
			ds := defsOf(fi, o)
			for i := range ds {
				if ds[i].Stmt.Pos() < ex.Ret.Pos() && (lastDef == nil || ds[i].Stmt.Pos() > lastDef.Stmt.Pos()) {
					lastDef = &ds[i]
				}
			}
			if lastDef != nil && lastDef.Rhs != nil {
				if isRecompile(lastDef.Rhs) {
					c.Pass("C36.recompiled", key, ex.Ret.Pos(), exprStr(first)+" was assigned from recompile")
					continue
				}
				if call, ok := ast.Unparen(lastDef.Rhs).(*ast.CallExpr); ok {
					if f := core.CalleeOf(info, call); f != nil && f.Pkg() == pk.Types {
						// helper that returns a graph: it must itself return recompiled graphs (one level)
						if hfi := c.P.Decl(f); hfi != nil && helperReturnsRecompiled(c, hfi) {
							c.Pass("C36.recompiled", key, ex.Ret.Pos(), exprStr(first)+" comes from "+f.Name()+", which returns recompiled graphs or its input")
							continue
						}
					}
				}
			}
			if o == types.Object(gParam) && lastDef == nil {
				// the untouched input: no AST mutation may precede
				reach, _ := fl.ReachableAvoiding(ex.Blk, ex.Idx, func(nd ast.Node) bool {
					call, ok := nd.(*ast.CallExpr)
					if !ok {
						return false
					}
					f := core.CalleeOf(info, call)
					return f != nil && mutating[f.Origin()]
				})
				// reach == true means: there is a path that avoids all mutators. We need: *no* path passes a mutator.
				passes := exitPassesMutator(fl, ex, info, mutating)
				_ = reach
				if !passes {
					c.Pass("C36.recompiled", key, ex.Ret.Pos(), "input graph returned on a path without AST mutation (no-op)")
				} else if r, ok := staleReturnExceptions[fname(fi)]; ok {
					c.Except("C36.recompiled", key, ex.Ret.Pos(), r)
				} else {
					c.Fail("C36.recompiled", key, ex.Ret.Pos(), "the caller's graph is returned as a success after an AST-mutating helper ran on some path: the returned diagram does not correspond to the edited source")
				}
				continue
			}
			c.Fail("C36.recompiled", key, ex.Ret.Pos(), "success return of "+exprStr(first)+", which is neither a recompile result nor the untouched input")
		}
		if n == 0 {
			c.Fail("C36.recompiled", "ret:"+fname(fi)+":none", fi.Decl.Pos(), "no success return found")
		}
	}
	checkRawString(c, "C36.rawstring")
	checkDeleteInLoop(c, "C36.delete-in-loop", "d2oracle", false)
}

// graphRooted: some argument of the call is rooted at a graph, a graph AST, or a graph element (object, edge,
// reference) — as opposed to a key freshly parsed from an API string.
func graphRooted(info *types.Info, call *ast.CallExpr) bool {
	for _, a := range call.Args {
		t := info.TypeOf(a)
		if t == nil {
			continue
		}
		if nt := namedOf(t); nt != nil && nt.Obj().Pkg() != nil {
			switch core.RelPkg(nt.Obj().Pkg().Path()) {
			case "d2graph":
				return true
			case "d2ast":
				if nt.Obj().Name() == "Map" {
					return true
				}
			}
		}
		if root := rootIdent(info, a); root != nil {
			if nt := namedOf(root.Type()); nt != nil && nt.Obj().Pkg() != nil && core.RelPkg(nt.Obj().Pkg().Path()) == "d2graph" {
				return true
			}
		}
	}
	return false
}

// exitPassesMutator: some entry→exit path executes a call to an AST-mutating helper.
func exitPassesMutator(fl *core.Flow, ex core.Exit, info *types.Info, mutating map[*types.Func]bool) bool {
	// a path passes a mutator iff the exit is reachable from a mutator call site
	found := false
	for _, b := range fl.G.Blocks {
		if !b.Live {
			continue
		}
		for i, nd := range b.Nodes {
			isMut := core.Contains(nd, func(x ast.Node) bool {
				call, ok := x.(*ast.CallExpr)
				if !ok {
					return false
				}
				f := core.CalleeOf(info, call)
				return f != nil && mutating[f.Origin()] && graphRooted(info, call)
			})
			if !isMut {
				continue
			}
			if r, _ := fl.ReachableFromAvoiding(int(b.Index), i, ex.Blk, ex.Idx, func(ast.Node) bool { return false }); r {
				found = true
			}
		}
	}
	return found
}

// helperReturnsRecompiled: every success return of the helper returns recompile(...), a variable assigned
// from recompile, or its own graph parameter.
func helperReturnsRecompiled(c *core.Check, fi *core.FuncInfo) bool {
	info := fi.Pkg.TypesInfo
	ok := true
	sig := fi.Obj.Type().(*types.Signature)
	ast.Inspect(fi.Decl.Body, func(n ast.Node) bool {
		if _, isLit := n.(*ast.FuncLit); isLit {
			return false
		}
		ret, isRet := n.(*ast.ReturnStmt)
		if !isRet || len(ret.Results) < 2 || !core.IsNil(info, ret.Results[len(ret.Results)-1]) {
			return true
		}
		first := ast.Unparen(ret.Results[0])
		if core.IsNil(info, first) {
			return true
		}
		if call, isCall := first.(*ast.CallExpr); isCall && core.IsCallTo(info, call, "d2oracle.recompile") {
			return true
		}
		o := core.ObjOf(info, first)
		if o != nil {
			for i := 0; i < sig.Params().Len(); i++ {
				if sig.Params().At(i) == o && len(defsOf(fi, o)) == 0 {
					return true
				}
			}
			for _, d := range defsOf(fi, o) {
				if d.Rhs != nil {
					if call, isCall := ast.Unparen(d.Rhs).(*ast.CallExpr); isCall && core.IsCallTo(info, call, "d2oracle.recompile") {
						return true
					}
				}
			}
		}
		ok = false
		return true
	})
	return ok
}

// checkRawString: in d2oracle no string node is built from a non-constant value except by RawString.
func checkRawString(c *core.Check, rule string) {
	pk := c.P.Pkg("d2oracle")
	info := pk.TypesInfo
	nraw := 0
	for _, fi := range c.P.Funcs(pk) {
		ast.Inspect(fi.Decl.Body, func(n ast.Node) bool {
			switch x := n.(type) {
			case *ast.CallExpr:
				f := core.CalleeOf(info, x)
				if f == nil || f.Pkg() == nil || core.RelPkg(f.Pkg().Path()) != "d2ast" {
					return true
				}
				switch f.Name() {
				case "RawString", "RawStringBox":
					nraw++
					c.PassTrivial(rule, "rawstring:"+fname(fi), x.Pos(), "RawString")
				case "FlatUnquotedString", "FlatDoubleQuotedString":
					if len(x.Args) == 1 && !isConst(info, x.Args[0]) {
						c.Fail(rule, "flat-string:"+fname(fi)+":"+exprStr(x.Args[0]), x.Pos(), f.Name()+" wraps a non-constant string without choosing a quoting that survives parsing: a name with a delimiter, a keyword spelling or surrounding spaces is written back as different D2")
					}
				}
			case *ast.CompositeLit:
				if nt := namedOf(info.TypeOf(x)); nt != nil && nt.Obj().Pkg() != nil && core.RelPkg(nt.Obj().Pkg().Path()) == "d2ast" {
					switch nt.Obj().Name() {
					case "UnquotedString", "DoubleQuotedString", "SingleQuotedString":
						nonConst := false
						ast.Inspect(x, func(m ast.Node) bool {
							if kv, ok := m.(*ast.KeyValueExpr); ok {
								if id, ok := kv.Key.(*ast.Ident); ok && (id.Name == "Value" || id.Name == "String") {
									if _, isLit := kv.Value.(*ast.CompositeLit); !isLit && !isConst(info, kv.Value) {
										if u, isU := kv.Value.(*ast.UnaryExpr); !isU || !isConst(info, u.X) {
											nonConst = true
										}
									}
								}
							}
							return true
						})
						if nonConst {
							c.Fail(rule, "string-literal:"+fname(fi)+":"+nt.Obj().Name(), x.Pos(), "a d2ast."+nt.Obj().Name()+" is assembled by hand from a non-constant value instead of d2ast.RawString")
						}
					}
				}
			}
			return true
		})
	}
	if nraw < 8 {
		c.Fail("floor", "floor:"+rule, token.NoPos, fmt.Sprintf("only %d RawString call sites found in d2oracle", nraw))
	} else {
		c.Pass(rule, "rawstring-sites", token.NoPos, fmt.Sprintf("%d RawString sites, no other constructor sees a non-constant value", nraw))
	}
}

// checkDeleteInLoop: `for i := …; i < len(x); i++ { … x = append(x[:i], x[i+1:]...) … }` (or slices.Delete(x, i, i+1)):
// every path from the deletion back to the loop's post statement passes `i--`, or the loop is left.
func checkDeleteInLoop(c *core.Check, rule, pkgRel string, helpers bool) {
	pk := c.P.Pkg(pkgRel)
	info := pk.TypesInfo
	n := 0
	helperN := map[string]int{}
	for _, fi := range c.P.Funcs(pk) {
		var loops []*ast.ForStmt
		ast.Inspect(fi.Decl.Body, func(nd ast.Node) bool {
			if fs, ok := nd.(*ast.ForStmt); ok {
				loops = append(loops, fs)
			}
			return true
		})
		for _, fs := range loops {
			inc, ok := fs.Post.(*ast.IncDecStmt)
			if !ok || inc.Tok != token.INC {
				continue
			}
			iv := core.ObjOf(info, inc.X)
			if iv == nil {
				continue
			}
			// deletions at index iv of some slice, directly in this loop (not in a nested loop over another index)
			ast.Inspect(fs.Body, func(nd ast.Node) bool {
				if inner, ok := nd.(*ast.ForStmt); ok && inner != fs {
					return false
				}
				if _, ok := nd.(*ast.RangeStmt); ok {
					return false
				}
				if hc, ok := nd.(*ast.CallExpr); ok {
					// a helper of the package that removes the element holding its second argument from <arg0>.<F>,
					// called on the slice this loop indexes with the current element
					if field, isHelper := deletesFromParamField(c, pk, hc); helpers && isHelper && len(hc.Args) == 2 {
						cond, _ := fs.Cond.(*ast.BinaryExpr)
						sliceText := exprStr(hc.Args[0]) + "." + field
						if cond != nil && exprStr(cond.Y) == "len("+sliceText+")" && currentElement(info, fs, iv, sliceText, hc.Args[1]) {
							n++
							helperN[fname(fi)]++
							key := fmt.Sprintf("delete-in-loop:%s:%s(%s, %s)", fname(fi), exprStr(hc.Fun), exprStr(hc.Args[0]), exprStr(hc.Args[1]))
							if k := helperN[fname(fi)]; k > 1 {
								key = fmt.Sprintf("%s#%d", key, k)
							}
							fl := core.NewFlow(pk, fi.Decl.Body)
							db, di, ok1 := fl.Locate(hc)
							pb, pi, ok2 := fl.Locate(inc)
							if !ok1 || !ok2 {
								c.Fail(rule, key, hc.Pos(), "cannot locate the deletion or the loop increment in the CFG")
								return true
							}
							// the helper reports whether it removed something: on the false edge of a test of that
							// result nothing was removed and no step back is due
							var result types.Object
							ast.Inspect(fs.Body, func(y ast.Node) bool {
								if as, ok := y.(*ast.AssignStmt); ok && len(as.Lhs) == 1 && len(as.Rhs) == 1 && ast.Unparen(as.Rhs[0]) == ast.Expr(hc) {
									result = core.ObjOf(info, as.Lhs[0])
								}
								return true
							})
							skip := false
							fl.WithEdges(func(b *cfg.Block, succ int) bool {
								if result != nil && succ == 1 {
									if cond := fl.CondOf(b); cond != nil && core.ObjOf(info, cond) == result {
										return false
									}
								}
								return true
							}, func() {
								skip, _ = fl.ReachableFromAvoiding(db, di, pb, pi, func(x ast.Node) bool {
									if d, ok := x.(*ast.IncDecStmt); ok && d.Tok == token.DEC && core.ObjOf(info, d.X) == iv {
										return true
									}
									if a, ok := x.(*ast.AssignStmt); ok && len(a.Lhs) == 1 && core.ObjOf(info, a.Lhs[0]) == iv {
										return true
									}
									return false
								})
							})
							c.Decide(!skip, rule, key, hc.Pos(), "index stepped back (or loop left) after the deletion", "after "+exprStr(hc.Fun)+" removed element i of "+sliceText+" the loop increments i without stepping back: the element that moved into slot i is never examined (a second key of the same name survives)")
						}
					}
					return true
				}
				as, ok := nd.(*ast.AssignStmt)
				if !ok || len(as.Rhs) != 1 {
					return true
				}
				call, ok := ast.Unparen(as.Rhs[0]).(*ast.CallExpr)
				if !ok {
					return true
				}
				isDel := false
				if id, ok := call.Fun.(*ast.Ident); ok && id.Name == "append" && len(call.Args) == 2 && call.Ellipsis.IsValid() {
					a0, ok0 := ast.Unparen(call.Args[0]).(*ast.SliceExpr)
					a1, ok1 := ast.Unparen(call.Args[1]).(*ast.SliceExpr)
					if ok0 && ok1 && a0.High != nil && core.ObjOf(info, a0.High) == iv && a1.Low != nil && exprStr(a1.Low) == exprStr(inc.X)+"+1" || (ok0 && ok1 && a0.High != nil && core.ObjOf(info, a0.High) == iv && a1.Low != nil && strings.HasPrefix(exprStr(a1.Low), exprStr(inc.X)+" + 1")) {
						isDel = true
					}
				}
				if f := core.CalleeOf(info, call); f != nil && core.FuncName(f) == "slices.Delete" && len(call.Args) == 3 && core.ObjOf(info, call.Args[1]) == iv {
					isDel = true
				}
				if !isDel {
					return true
				}
				n++
				// path from the deletion to the post statement without `i--`
				fl := core.NewFlow(pk, fi.Decl.Body)
				db, di, ok1 := fl.Locate(as)
				pb, pi, ok2 := fl.Locate(inc)
				key := "delete-in-loop:" + fname(fi) + ":" + exprStr(as.Lhs[0])
				if !ok1 || !ok2 {
					c.Fail(rule, key, as.Pos(), "cannot locate the deletion or the loop increment in the CFG")
					return true
				}
				skip, _ := fl.ReachableFromAvoiding(db, di, pb, pi, func(x ast.Node) bool {
					if d, ok := x.(*ast.IncDecStmt); ok && d.Tok == token.DEC && core.ObjOf(info, d.X) == iv {
						return true
					}
					if a, ok := x.(*ast.AssignStmt); ok && len(a.Lhs) == 1 && core.ObjOf(info, a.Lhs[0]) == iv {
						return true // i -= 1, i = i - 1 …
					}
					return false
				})
				c.Decide(!skip, rule, key, as.Pos(), "index stepped back (or loop left) after the deletion", "after deleting element i the loop increments i without stepping back: the element that moved into slot i is never examined")
				return true
			})
		}
	}
	if n == 0 {
		c.Fail("floor", "floor:"+rule, token.NoPos, "no delete-at-index loops found in "+pkgRel)
	}
}

// deletesFromParamField: the call's static callee is a function of pk with two parameters whose body removes one
// element from <param0>.<F> (`p.F = append(p.F[:i], p.F[i+1:]...)`) where the element is selected by comparing it
// (or a field of it) with <param1>. Returns F.
func deletesFromParamField(c *core.Check, pk *packages.Package, call *ast.CallExpr) (string, bool) {
	f := core.CalleeOf(pk.TypesInfo, call)
	if f == nil || f.Pkg() != pk.Types {
		return "", false
	}
	fi := c.P.Decl(f)
	if fi == nil || fi.Decl.Body == nil {
		return "", false
	}
	sig := f.Type().(*types.Signature)
	if sig.Params().Len() != 2 || sig.Recv() != nil {
		return "", false
	}
	p0, p1 := sig.Params().At(0), sig.Params().At(1)
	info := fi.Pkg.TypesInfo
	field := ""
	usesP1 := false
	ast.Inspect(fi.Decl.Body, func(n ast.Node) bool {
		switch x := n.(type) {
		case *ast.AssignStmt:
			if len(x.Lhs) == 1 && len(x.Rhs) == 1 {
				if sel, ok := ast.Unparen(x.Lhs[0]).(*ast.SelectorExpr); ok && core.ObjOf(info, sel.X) == p0 {
					if ap, ok := ast.Unparen(x.Rhs[0]).(*ast.CallExpr); ok && len(ap.Args) == 2 && ap.Ellipsis.IsValid() {
						if id, ok := ap.Fun.(*ast.Ident); ok && id.Name == "append" {
							a0, ok0 := ast.Unparen(ap.Args[0]).(*ast.SliceExpr)
							a1, ok1 := ast.Unparen(ap.Args[1]).(*ast.SliceExpr)
							if ok0 && ok1 && exprStr(a0.X) == exprStr(sel) && exprStr(a1.X) == exprStr(sel) && a0.High != nil && a1.Low != nil {
								field = sel.Sel.Name
							}
						}
					}
				}
			}
		case *ast.BinaryExpr:
			if x.Op == token.EQL && (core.ObjOf(info, x.X) == p1 || core.ObjOf(info, x.Y) == p1) {
				usesP1 = true
			}
		}
		return true
	})
	return field, field != "" && usesP1
}

// currentElement: arg is (a field of) the variable bound to <slice>[iv] in the loop body, or <slice>[iv] itself.
func currentElement(info *types.Info, fs *ast.ForStmt, iv types.Object, sliceText string, arg ast.Expr) bool {
	root := rootIdent(info, arg)
	if root == nil {
		return false
	}
	if strings.HasPrefix(exprStr(arg), sliceText+"["+iv.Name()+"]") {
		return true
	}
	found := false
	for _, st := range fs.Body.List {
		as, ok := st.(*ast.AssignStmt)
		if !ok || as.Tok != token.DEFINE || len(as.Lhs) != 1 || len(as.Rhs) != 1 {
			continue
		}
		if core.ObjOf(info, as.Lhs[0]) == root && exprStr(as.Rhs[0]) == sliceText+"["+iv.Name()+"]" {
			found = true
		}
	}
	return found
}

func runC41(c *core.Check) {
	c.Rule("C41.nil", "GetBoardGraph result and its BaseAST are nil-tested before use")
	c.Rule("C41.replace", "with a non-empty board path, the root graph is recompiled only after ReplaceBoardNode")
	c.Rule("C41.root-ast", "g.AST is only aliased for the root board and passed to ReplaceBoardNode")
	muts := oracleMutators(c)
	if muts == nil {
		return
	}
	pk := c.P.Pkg("d2oracle")
	info := pk.TypesInfo
	for _, fi := range muts {
		fl := core.NewFlow(pk, fi.Decl.Body)
		sig := fi.Obj.Type().(*types.Signature)
		gParam := sig.Params().At(0)
		var bpParam *types.Var
		for i := 0; i < sig.Params().Len(); i++ {
			if sig.Params().At(i).Name() == "boardPath" {
				bpParam = sig.Params().At(i)
			}
		}
		// (1) nil tests
		for _, call := range callsIn(fi, false, "d2oracle.GetBoardGraph") {
			bg := resultVar(fi, call, 0)
			if bg == nil {
				c.Fail("C41.nil", "boardg:"+fname(fi), call.Pos(), "GetBoardGraph result is not bound to a variable")
				continue
			}
			// every later selector on bg must be guarded by bg != nil
			bad := false
			ast.Inspect(fi.Decl.Body, func(n ast.Node) bool {
				sel, ok := n.(*ast.SelectorExpr)
				if !ok || core.ObjOf(info, sel.X) != bg || sel.Pos() < call.Pos() {
					return true
				}
				// only uses dominated by this definition (boardG := g is the other definition)
				if !fl.DominatesNode(call, sel) {
					return true
				}
				if ok2, _ := guardedNonNil(fl, info, sel, sel.X); !ok2 {
					bad = true
				}
				return true
			})
			c.Decide(!bad, "C41.nil", "boardg:"+fname(fi), call.Pos(), "board graph nil-tested before use", "the nested board graph is dereferenced without testing that the board path resolved")
			// BaseAST nil test: an assignment X = bg.BaseAST followed by a nil test of X that returns
			var base types.Object
			ast.Inspect(fi.Decl.Body, func(n ast.Node) bool {
				as, ok := n.(*ast.AssignStmt)
				if ok && len(as.Lhs) == 1 && len(as.Rhs) == 1 {
					if sel, ok := ast.Unparen(as.Rhs[0]).(*ast.SelectorExpr); ok && sel.Sel.Name == "BaseAST" && core.ObjOf(info, sel.X) == bg {
						base = core.ObjOf(info, as.Lhs[0])
						// find `if base == nil { return … }` right after
						tested := false
						ast.Inspect(fi.Decl.Body, func(m ast.Node) bool {
							is, ok := m.(*ast.IfStmt)
							if !ok || is.Pos() < as.Pos() {
								return true
							}
							if be, ok := is.Cond.(*ast.BinaryExpr); ok && be.Op == token.EQL && core.ObjOf(info, be.X) == base && core.IsNil(info, be.Y) {
								if len(is.Body.List) > 0 {
									if _, isRet := is.Body.List[len(is.Body.List)-1].(*ast.ReturnStmt); isRet {
										tested = true
									}
								}
							}
							return true
						})
						c.Decide(tested, "C41.nil", "baseast:"+fname(fi), as.Pos(), "BaseAST nil-tested with an error return", "a board that cannot be modified through this file (BaseAST == nil) is edited anyway: nil dereference or an edit applied to the wrong AST")
					}
				}
				return true
			})
		}
		// (2) ReplaceBoardNode before recompile(g) when boardPath is non-empty
		if bpParam != nil {
			nonEmptyEdge := func(b *cfg.Block, succ int) bool {
				cond := fl.CondOf(b)
				if cond == nil {
					return true
				}
				be, ok := ast.Unparen(cond).(*ast.BinaryExpr)
				if !ok {
					return true
				}
				l, ok := ast.Unparen(be.X).(*ast.CallExpr)
				if !ok || exprStr(l.Fun) != "len" || len(l.Args) != 1 || core.ObjOf(info, l.Args[0]) != types.Object(bpParam) {
					return true
				}
				tv, ok := info.Types[be.Y]
				if !ok || tv.Value == nil || tv.Value.ExactString() != "0" {
					return true
				}
				switch be.Op {
				case token.GTR, token.NEQ: // len(bp) > 0: non-empty takes the true edge (succ 0)
					return succ == 0
				case token.EQL: // len(bp) == 0: non-empty takes the false edge
					return succ == 1
				}
				return true
			}
			for _, call := range callsIn(fi, false, "d2oracle.recompile") {
				if len(call.Args) != 1 || core.ObjOf(info, call.Args[0]) != types.Object(gParam) {
					continue // recompile(boardG) for the root board is judged by the edge filter: unreachable when boardPath is non-empty
				}
				cb, ci, ok := fl.Locate(call)
				if !ok {
					continue
				}
				// the obligation arises only when an editing helper was given the board's base AST: edits through shared
				// nodes (references) are visible in the root AST, insertions into the base AST's node list are not
				mutating := astMutators(c)
				var baseObjs []types.Object
				ast.Inspect(fi.Decl.Body, func(n ast.Node) bool {
					if as, ok := n.(*ast.AssignStmt); ok && len(as.Lhs) == 1 && len(as.Rhs) == 1 {
						if sel, ok := ast.Unparen(as.Rhs[0]).(*ast.SelectorExpr); ok && sel.Sel.Name == "BaseAST" {
							if o := core.ObjOf(info, as.Lhs[0]); o != nil {
								baseObjs = append(baseObjs, o)
							}
						}
					}
					return true
				})
				var sites []*ast.CallExpr
				for _, mc := range core.Calls(fi.Decl.Body, false) {
					f := core.CalleeOf(info, mc)
					if f == nil || !mutating[f.Origin()] || f.Name() == "ReplaceBoardNode" {
						continue
					}
					for _, a := range mc.Args {
						for _, bo := range baseObjs {
							if core.ObjOf(info, a) == bo {
								sites = append(sites, mc)
							}
						}
					}
				}
				if len(sites) == 0 {
					c.PassTrivial("C41.replace", "replace-before-recompile:"+fname(fi), call.Pos(), "no editing helper receives the board's base AST")
					continue
				}
				reach := false
				fl.WithEdges(nonEmptyEdge, func() {
					for _, mc := range sites {
						mb, mi, ok := fl.Locate(mc)
						if !ok {
							continue
						}
						if r, _ := fl.ReachableFromAvoiding(mb, mi, cb, ci, func(n ast.Node) bool { return core.IsCallTo(info, n, "d2oracle.ReplaceBoardNode") }); r {
							reach = true
						}
					}
				})
				c.Decide(!reach, "C41.replace", "replace-before-recompile:"+fname(fi), call.Pos(), "every non-empty-board-path route from an edit of the base AST to recompile(g) passes ReplaceBoardNode",
					"with a nested board path the root graph is recompiled without putting the edited board AST back (ReplaceBoardNode): the edit is lost or lands in the copy only")
			}
			// recompile(boardG) must not be reachable with a non-empty board path unless boardG is g
			for _, call := range callsIn(fi, false, "d2oracle.recompile") {
				if len(call.Args) != 1 || core.ObjOf(info, call.Args[0]) == types.Object(gParam) {
					continue
				}
				cb, ci, ok := fl.Locate(call)
				if !ok {
					continue
				}
				// allowed before edits (prevG := recompile(boardG) snapshots) — only returns matter
				isReturned := false
				ast.Inspect(fi.Decl.Body, func(n ast.Node) bool {
					if r, ok := n.(*ast.ReturnStmt); ok && len(r.Results) >= 1 && ast.Unparen(r.Results[0]) == ast.Expr(call) {
						isReturned = true
					}
					return true
				})
				if !isReturned {
					continue
				}
				reach, _ := fl.ReachableAvoidingEdges(cb, ci, func(ast.Node) bool { return false }, nonEmptyEdge)
				c.Decide(!reach, "C41.replace", "board-graph-returned:"+fname(fi), call.Pos(), "returned only for the root board", "a recompile of the nested board graph alone is returned for a nested board path: the caller receives a graph whose root is the board")
			}
		}
		// (3) g.AST uses
		ast.Inspect(fi.Decl.Body, func(n ast.Node) bool {
			sel, ok := n.(*ast.SelectorExpr)
			if !ok || sel.Sel.Name != "AST" || core.ObjOf(info, sel.X) != types.Object(gParam) {
				return true
			}
			okUse := false
			ast.Inspect(fi.Decl.Body, func(m ast.Node) bool {
				switch x := m.(type) {
				case *ast.AssignStmt:
					for _, r := range x.Rhs {
						if ast.Unparen(r) == ast.Expr(sel) {
							okUse = true // baseAST := g.AST
						}
					}
				case *ast.CallExpr:
					if core.IsCallTo(info, x, "d2oracle.ReplaceBoardNode") && len(x.Args) > 0 && ast.Unparen(x.Args[0]) == ast.Expr(sel) {
						okUse = true
					}
					// read-only helpers
					if f := core.CalleeOf(info, x); f != nil {
						for _, a := range x.Args {
							if ast.Unparen(a) == ast.Expr(sel) && (strings.HasPrefix(f.Name(), "Is") || strings.HasPrefix(f.Name(), "Get") || strings.HasPrefix(f.Name(), "Format")) {
								okUse = true
							}
						}
					}
				case *ast.SelectorExpr:
					if ast.Unparen(x.X) == ast.Expr(sel) && (x.Sel.Name == "Range") {
						okUse = true
					}
				case *ast.BinaryExpr:
					if (x.Op == token.EQL || x.Op == token.NEQ) && (ast.Unparen(x.X) == ast.Expr(sel) || ast.Unparen(x.Y) == ast.Expr(sel)) {
						okUse = true
					}
				}
				return true
			})
			c.Decide(okUse, "C41.root-ast", "root-ast:"+fname(fi), sel.Pos(), "aliased as the root board's base AST / ReplaceBoardNode / read-only", "the root AST is passed to an editing helper directly: for a nested board path the edit lands in the root board")
			return true
		})
	}
	c.Floor("C41.nil", 8)
	c.Floor("C41.replace", 4)
	runC41Refs(c)
	runC41Scope(c)
}

// runC41Refs: the writeable-reference discipline. An element of a nested board carries references from the
// boards it inherits from; only the references that live in the addressed board's AST may be rewritten.
func runC41Refs(c *core.Check) {
	c.Rule("C41.all-or-null", "a count of writeable references is compared with the count of all references of the same element (or with zero)")
	c.Rule("C41.narrowed-refs", "once a reference list was narrowed to the writeable ones, the raw list is not iterated again")
	pk := c.P.Pkg("d2oracle")
	if pk == nil {
		return
	}
	info := pk.TypesInfo
	isWriteable := func(e ast.Expr) (elem string, ok bool) {
		call, isCall := ast.Unparen(e).(*ast.CallExpr)
		if !isCall || len(call.Args) < 1 || !(core.IsCallTo(info, call, "d2oracle.GetWriteableRefs") || core.IsCallTo(info, call, "d2oracle.GetWriteableEdgeRefs")) {
			return "", false
		}
		return exprStr(call.Args[0]), true
	}
	ncmp, nnarrow := 0, 0
	for _, fi := range c.P.Funcs(pk) {
		if fi.Decl.Body == nil {
			continue
		}
		// variables holding a writeable list, with the element they were computed for
		writeable := map[types.Object]string{}
		narrowed := map[string]token.Pos{} // element -> position of the narrowing assignment (plain `=`)
		ast.Inspect(fi.Decl.Body, func(n ast.Node) bool {
			as, ok := n.(*ast.AssignStmt)
			if !ok || len(as.Lhs) != 1 || len(as.Rhs) != 1 {
				return true
			}
			if el, ok := isWriteable(as.Rhs[0]); ok {
				if o := core.ObjOf(info, as.Lhs[0]); o != nil {
					writeable[o] = el
					if as.Tok == token.ASSIGN {
						narrowed[el] = as.End()
						nnarrow++
					}
				}
			}
			return true
		})
		if len(writeable) == 0 {
			continue
		}
		counts := map[string]int{}
		ast.Inspect(fi.Decl.Body, func(n ast.Node) bool {
			switch x := n.(type) {
			case *ast.BinaryExpr:
				if x.Op != token.EQL && x.Op != token.NEQ && x.Op != token.LSS && x.Op != token.GTR && x.Op != token.LEQ && x.Op != token.GEQ {
					return true
				}
				lenOfW := func(e ast.Expr) (string, bool) {
					call, ok := ast.Unparen(e).(*ast.CallExpr)
					if !ok || exprStr(call.Fun) != "len" || len(call.Args) != 1 {
						return "", false
					}
					el, ok := writeable[core.ObjOf(info, call.Args[0])]
					return el, ok
				}
				el, ok := lenOfW(x.X)
				other := x.Y
				if !ok {
					el, ok = lenOfW(x.Y)
					other = x.X
				}
				if !ok {
					return true
				}
				ncmp++
				key := fmt.Sprintf("all-or-null:%s:%s", fname(fi), el)
				counts[key]++
				if counts[key] > 1 {
					key = fmt.Sprintf("%s#%d", key, counts[key])
				}
				good := false
				if v, isConst := intConst(info, other); isConst && v == 0 {
					good = true
				}
				if exprStr(ast.Unparen(other)) == "len("+el+".References)" {
					good = true
				}
				c.Decide(good, "C41.all-or-null", key, x.Pos(), "compared with len("+el+".References) or 0",
					fmt.Sprintf("%s: the number of writeable references of %s is compared with %s instead of the number of all its references; the rewrite then proceeds although some references live in another board, and the loops over %s.References edit that board", exprStr(x), el, exprStr(other), el))
			case *ast.RangeStmt:
				el := strings.TrimSuffix(exprStr(x.X), ".References")
				if el == exprStr(x.X) {
					return true
				}
				if pos, ok := narrowed[el]; ok && x.Pos() > pos {
					key := fmt.Sprintf("narrowed:%s:range %s.References", fname(fi), el)
					counts[key]++
					if counts[key] > 1 {
						key = fmt.Sprintf("%s#%d", key, counts[key])
					}
					c.Fail("C41.narrowed-refs", key, x.Pos(), fmt.Sprintf("%s narrowed the references of %s to the writeable ones and then ranges over %s.References again: references that live in the boards this one inherits from are rewritten too", fname(fi), el, el))
				}
			}
			return true
		})
	}
	c.Decide(ncmp >= 3, "C41.all-or-null", "all-or-null:inventory", token.NoPos, fmt.Sprintf("%d comparisons of a writeable-reference count", ncmp), fmt.Sprintf("only %d comparisons of a writeable-reference count found", ncmp))
	c.Decide(nnarrow >= 1, "C41.narrowed-refs", "narrowed:inventory", token.NoPos, fmt.Sprintf("%d narrowing assignments, no raw iteration after any of them", nnarrow), "no narrowing assignment found")
}

func runC37(c *core.Check) {
	c.Rule("C37.unique", "generateUniqueKey returns a key only where an existence test of it failed")
	c.Rule("C37.rawstring", "the value written by _set goes through d2ast.RawString; no other constructor sees non-constant strings")
	gu := mustFunc(c, "d2oracle", "", "generateUniqueKey")
	if gu == nil {
		return
	}
	info := gu.Pkg.TypesInfo
	fl := core.NewFlow(gu.Pkg, gu.Decl.Body)
	// existence-test variables: second result of HasChild / HasEdge
	exist := map[types.Object]bool{}
	for _, call := range core.Calls(gu.Decl.Body, false) {
		f := core.CalleeOf(info, call)
		if f == nil || (f.Name() != "HasChild" && f.Name() != "HasEdge") {
			continue
		}
		if o := resultVar(gu, call, 0); o != nil {
			exist[o] = true
		}
	}
	var mentionsNotExist func(e ast.Expr, pol bool) bool
	mentionsNotExist = func(e ast.Expr, pol bool) bool {
		e = ast.Unparen(e)
		switch x := e.(type) {
		case *ast.Ident:
			return exist[core.ObjOf(info, x)] && !pol
		case *ast.UnaryExpr:
			if x.Op == token.NOT {
				return mentionsNotExist(x.X, !pol)
			}
		case *ast.BinaryExpr:
			if x.Op == token.LOR && pol {
				// (!ok || obj == ignored) true: one of the disjuncts is the failed test
				return mentionsNotExist(x.X, true) || mentionsNotExist(x.Y, true)
			}
			if x.Op == token.LAND && !pol {
				return mentionsNotExist(x.X, false) || mentionsNotExist(x.Y, false)
			}
		}
		return false
	}
	n := 0
	for _, ex := range fl.Exits() {
		if ex.Ret == nil || len(ex.Ret.Results) != 3 || !core.IsNil(info, ex.Ret.Results[2]) {
			continue
		}
		n++
		ok := false
		for _, g := range fl.GuardsOf(ex.Blk) {
			if mentionsNotExist(g.Cond, g.True) {
				ok = true
			}
			for _, a := range g.Atoms() {
				if mentionsNotExist(a.Cond, a.True) {
					ok = true
				}
			}
		}
		c.Decide(ok, "C37.unique", "unique-key-return", ex.Ret.Pos(), "returned under a failed HasChild/HasEdge test", "generateUniqueKey returns a key without having established that no element has it: Create can return the ID of an existing element")
	}
	if n < 3 {
		c.Fail("floor", "floor:C37.unique", token.NoPos, fmt.Sprintf("only %d success returns found in generateUniqueKey", n))
	}
	// _set's value
	set := mustFunc(c, "d2oracle", "", "_set")
	if set != nil {
		sinfo := set.Pkg.TypesInfo
		valueParam := (*types.Var)(nil)
		sig := set.Obj.Type().(*types.Signature)
		for i := 0; i < sig.Params().Len(); i++ {
			if sig.Params().At(i).Name() == "value" {
				valueParam = sig.Params().At(i)
			}
		}
		nuse := 0
		ast.Inspect(set.Decl.Body, func(nd ast.Node) bool {
			st, ok := nd.(*ast.StarExpr)
			if !ok || valueParam == nil || core.ObjOf(sinfo, st.X) != types.Object(valueParam) {
				return true
			}
			// every *value use is the argument of RawString, of a BlockString literal's Value, or a comparison/format
			okUse := false
			ast.Inspect(set.Decl.Body, func(m ast.Node) bool {
				switch x := m.(type) {
				case *ast.CallExpr:
					for _, a := range x.Args {
						if ast.Unparen(a) == ast.Expr(st) {
							if f := core.CalleeOf(sinfo, x); f != nil && (core.FuncName(f) == "d2ast.RawString" || f.Pkg() != nil && f.Pkg().Path() == "fmt" || f.Pkg() != nil && f.Pkg().Path() == "strings") {
								okUse = true
							}
						}
					}
				case *ast.KeyValueExpr:
					if ast.Unparen(x.Value) == ast.Expr(st) {
						okUse = true // BlockString{Value: *value} for tagged values
					}
				case *ast.BinaryExpr:
					if ast.Unparen(x.X) == ast.Expr(st) || ast.Unparen(x.Y) == ast.Expr(st) {
						okUse = true
					}
				}
				return true
			})
			nuse++
			c.Decide(okUse, "C37.rawstring", "_set:value-use", st.Pos(), "value reaches the AST through RawString (or a tagged block string)", "the API value is written into the AST by another route than d2ast.RawString")
			return true
		})
		if nuse == 0 {
			c.Fail("C37.rawstring", "_set:value-use:none", set.Decl.Pos(), "no use of the value parameter found")
		}
	}
	checkRawString(c, "C37.rawstring")

	// (3) what RawString(value, false) prints reads back as the same string: the generator clauses of C05
	c.Rule("C37.value-quoting", "RawString in value context quotes every value the parser would read as a keyword (C05 clauses)")
	sub := core.NewSubCheck(c)
	runC05(sub)
	for _, b := range sub.BrokenList() {
		c.Broken("C05 clause: %s", b)
	}
	nq := 0
	for _, o := range sub.Obligations() {
		if o.Rule == "C05.value-keywords" || o.Rule == "C05.escape-keeps-case" || (o.Rule == "C05.delimiters" && strings.HasPrefix(o.Key, "value:")) {
			c.Adopt("C37.value-quoting", o)
			nq++
		}
	}
	if nq < 5 {
		c.Fail("C37.value-quoting", "value-quoting:inventory", token.NoPos, fmt.Sprintf("only %d C05 value clauses found", nq))
	}
	// (5) in-place rewrites of an attribute's own key refuse shared keys
	runC37InPlace(c)
	// (4) names are tested for existence on the addressed board: the board-root clause of C41
	c.Rule("C37.board-graph", "after the board is resolved, lookups and unique-name generation use the board's graph (C41 clause)")
	sub2 := core.NewSubCheck(c)
	runC41Scope(sub2)
	for _, o := range sub2.Obligations() {
		if o.Rule == "C41.board-root" {
			c.Adopt("C37.board-graph", o)
		}
	}
}

// runC37InPlace: _set may overwrite the key an attribute (or the label) came from only when that key belongs to
// the element alone. The predicate guarding every such rewrite must refuse a key with a glob, a key inside the
// map of a glob (an ancestor test that starts from the base AST) and a key inside a class.
func runC37InPlace(c *core.Check) {
	c.Rule("C37.in-place-guard", "an attribute's own key is overwritten only under a predicate that refuses globs, keys inside a glob's map, and classes")
	c.Rule("C37.keep-map", "the value of an existing key is replaced wholesale by the new scalar only when the key has no map")
	set := mustFunc(c, "d2oracle", "", "_set")
	if set == nil {
		return
	}
	info := set.Pkg.TypesInfo
	var baseAST types.Object
	ps := set.Obj.Type().(*types.Signature).Params()
	for i := 0; i < ps.Len(); i++ {
		if strings.HasSuffix(ps.At(i).Type().String(), "d2ast.Map") {
			baseAST = ps.At(i)
		}
	}
	// facts about a predicate body: which tests it (transitively) performs
	type facts struct{ glob, class, ancestorGlob bool }
	var scan func(body ast.Node, finfo *types.Info, depth int, f *facts, underBase bool)
	scan = func(body ast.Node, finfo *types.Info, depth int, f *facts, underBase bool) {
		ast.Inspect(body, func(n ast.Node) bool {
			call, ok := n.(*ast.CallExpr)
			if !ok {
				return true
			}
			callee := core.CalleeOf(finfo, call)
			if callee == nil {
				return true
			}
			switch callee.Name() {
			case "HasGlob":
				f.glob = true
				if underBase {
					f.ancestorGlob = true
				}
			case "InClass":
				f.class = true
			}
			if depth < 2 && callee.Pkg() == set.Pkg.Types {
				passesBase := underBase
				for _, a := range call.Args {
					if baseAST != nil && core.ObjOf(finfo, a) == baseAST {
						passesBase = true
					}
				}
				if h := c.P.Decl(callee); h != nil && h.Decl.Body != nil {
					scan(h.Decl.Body, h.Pkg.TypesInfo, depth+1, f, passesBase)
				}
			}
			return true
		})
	}
	preds := map[types.Object]*facts{}
	ast.Inspect(set.Decl.Body, func(n ast.Node) bool {
		as, ok := n.(*ast.AssignStmt)
		if !ok || len(as.Lhs) != 1 || len(as.Rhs) != 1 {
			return true
		}
		if lit, ok := ast.Unparen(as.Rhs[0]).(*ast.FuncLit); ok {
			f := &facts{}
			scan(lit.Body, info, 0, f, false)
			preds[core.ObjOf(info, as.Lhs[0])] = f
		}
		return true
	})
	fl := core.NewFlow(set.Pkg, set.Decl.Body)
	nsites := 0
	counts := map[string]int{}
	ast.Inspect(set.Decl.Body, func(n ast.Node) bool {
		switch x := n.(type) {
		case *ast.CallExpr:
			sel, ok := ast.Unparen(x.Fun).(*ast.SelectorExpr)
			if !ok || sel.Sel.Name != "SetScalar" {
				return true
			}
			mkSel, ok := ast.Unparen(sel.X).(*ast.SelectorExpr)
			if !ok || mkSel.Sel.Name != "MapKey" {
				return true
			}
			t := info.TypeOf(mkSel.X)
			if t == nil || !strings.HasSuffix(strings.TrimPrefix(t.String(), "*"), "d2graph.Scalar") {
				return true
			}
			nsites++
			key := "in-place:_set:" + exprStr(mkSel.X)
			counts[key]++
			if counts[key] > 1 {
				key = fmt.Sprintf("%s#%d", key, counts[key])
			}
			var best *facts
			for _, g := range fl.GuardsOfNode(x) {
				for _, a := range g.Atoms() {
					if call, ok := ast.Unparen(a.Cond).(*ast.CallExpr); ok && a.True {
						if f := preds[core.ObjOf(info, call.Fun)]; f != nil {
							best = f
						}
					}
				}
			}
			missing := ""
			switch {
			case best == nil:
				missing = "no guarding predicate"
			case !best.glob:
				missing = "the predicate does not test the key for a glob"
			case !best.ancestorGlob:
				missing = "the predicate does not test whether the key lies inside the map of a glob (a search from the base AST)"
			case !best.class:
				missing = "the predicate does not test whether the key lies inside a class"
			}
			c.Decide(missing == "", "C37.in-place-guard", key, x.Pos(), "guarded by a predicate that refuses globs, glob maps and classes",
				fmt.Sprintf("_set overwrites the key %s came from (%s): when that key is a glob, sits in a glob's map or in a class, every other element it applies to changes as well", exprStr(mkSel.X), missing))
		case *ast.AssignStmt:
			// X.MapKey.Value = mk.Value (the API value) on an existing key
			if len(x.Lhs) != 1 || len(x.Rhs) != 1 || x.Tok != token.ASSIGN {
				return true
			}
			l := exprStr(x.Lhs[0])
			if !strings.HasSuffix(l, ".MapKey.Value") || !strings.HasSuffix(exprStr(x.Rhs[0]), "mk.Value") {
				return true
			}
			base := strings.TrimSuffix(l, ".Value")
			// an enclosing if whose condition looks at the key's map and whose other arm keeps it
			ok := false
			ast.Inspect(set.Decl.Body, func(m ast.Node) bool {
				ifs, isIf := m.(*ast.IfStmt)
				if !isIf || ifs.Else == nil || x.Pos() < ifs.Else.Pos() || x.End() > ifs.Else.End() {
					return true
				}
				if strings.Contains(exprStr(ifs.Cond), base+".Value.Map != nil") && core.Contains(ifs.Body, func(y ast.Node) bool {
					cl, isCall := y.(*ast.CallExpr)
					return isCall && strings.HasSuffix(exprStr(cl.Fun), ".SetScalar")
				}) {
					ok = true
				}
				return true
			})
			c.Decide(ok, "C37.keep-map", "keep-map:_set:"+l, x.Pos(), "only in the arm where the key has no map; the other arm uses SetScalar",
				fmt.Sprintf("_set replaces the whole value of an existing key (%s = mk.Value): when the key carries a map, e.g. (a -> b)[0]: {style.stroke: red}, the map and every attribute in it are dropped by setting the label", l))
		}
		return true
	})
	if nsites < 10 {
		c.Fail("C37.in-place-guard", "in-place:inventory", token.NoPos, fmt.Sprintf("only %d in-place rewrites found in _set", nsites))
	}
	// the map _set appends the new key into, when it takes it from a reference of a connection, is the connection's own
	c.Rule("C37.own-map", "the map of a reference is chosen as the place to append into only when the reference's key is the element's alone (no glob, a single connection)")
	nown := 0
	ast.Inspect(set.Decl.Body, func(n ast.Node) bool {
		rs, ok := n.(*ast.RangeStmt)
		if !ok || rs.Value == nil {
			return true
		}
		t := info.TypeOf(rs.Value)
		if t == nil || !strings.HasSuffix(t.String(), "d2graph.EdgeReference") {
			return true
		}
		ref := core.ObjOf(info, rs.Value)
		ast.Inspect(rs.Body, func(m ast.Node) bool {
			as, ok := m.(*ast.AssignStmt)
			if !ok || len(as.Lhs) != 1 || len(as.Rhs) != 1 || as.Tok != token.ASSIGN {
				return true
			}
			if rootIdent(info, as.Rhs[0]) != ref || !strings.HasSuffix(exprStr(as.Rhs[0]), ".MapKey.Value.Map") {
				return true
			}
			if tl := info.TypeOf(as.Lhs[0]); tl == nil || !strings.HasSuffix(tl.String(), "d2ast.Map") {
				return true
			}
			nown++
			globTested, chainTested := false, false
			for _, g := range fl.GuardsOfNode(as) {
				for _, a := range g.Atoms() {
					cs := exprStr(a.Cond)
					if strings.Contains(cs, ".HasGlob()") && !a.True {
						globTested = true
					}
					if strings.Contains(cs, "len("+ref.Name()+".MapKey.Edges)") {
						chainTested = true
					}
				}
			}
			c.Decide(globTested, "C37.own-map", "own-map:_set:"+exprStr(as.Lhs[0])+"="+exprStr(as.Rhs[0])+"|glob", as.Pos(), "not taken from a glob reference",
				"_set appends the new attribute into the map of the first reference that has one, without testing that the reference is not a glob: with `(* -> *)[*]: {style.stroke: red}` Set of (a -> b)[0].style.stroke writes into the glob's map and every connection changes")
			c.Decide(chainTested, "C37.own-map", "own-map:_set:"+exprStr(as.Lhs[0])+"="+exprStr(as.Rhs[0])+"|chain", as.Pos(), "not taken from a chain reference",
				"_set appends the new attribute into the map of the first reference that has one, without testing that the reference names this connection alone: with `a -> b -> c: {style.opacity: 0.4}` Set on (a -> b)[0] edits the chain's map and (b -> c)[0] changes too")
			return true
		})
		return true
	})
	if nown == 0 {
		c.Fail("C37.own-map", "own-map:inventory", token.NoPos, "no scope = ref.MapKey.Value.Map choice found in _set")
	}
}
