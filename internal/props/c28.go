package props

import (
	"fmt"
	"go/ast"
	"go/token"
	"go/types"
	"reflect"
	"strings"

	"d2verif/internal/core"
)

func init() {
	register(&Prop{
		ID:       "C28",
		Title:    "Export is one-to-one and user styles override theme defaults",
		Patterns: []string{"./d2exporter", "./d2graph", "./d2target"},
		Explanation: "Decides: (1) Export fills Shapes[i] from Objects[i] and Connections[i] from Edges[i] for the same index over slices made with the source lengths, the shape ID is obj.AbsID(), and a connection's ID/Src/Dst are edge.AbsID()/edge.Src.AbsID()/edge.Dst.AbsID(); " +
			"(2) user-override-last — for every exported field that has a user source (an assignment guarded by `<style> != nil` in applyStyles, toShape or toConnection), every other write to that field (defaults, applyTheme including every special-rule branch) is either guarded by the matching `<style> == nil` test or is followed on every path to the exit by a user write of the same field (calls are inlined one level), so no theme rule can be the last writer when the user set the value; " +
			"(3) every field of d2graph.Style is read by the exporter.",
		NotCovered: "the values under every theme at run time are decided structurally for all themes at once (special rules are branches on theme.SpecialRules.*); colour resolution in the renderer",
		Technique:  "static analysis: loop/index shape, SSA-free value provenance on the typed AST, last-writer reachability on go/cfg with one-level call inlining",
		Run:        runC28,
	})
}

type fieldWrite struct {
	field   string
	node    ast.Node // the assignment (or call, when inlined)
	user    bool     // guarded by <src> != nil
	ifUnset bool     // guarded by <src> == nil for the field's own source
	src     string   // style source (e.g. "Style.Fill")
}

// styleSourceOf: guard atoms that test a style scalar of the user object against nil.
func styleGuards(fl *core.Flow, info *types.Info, n ast.Node, user types.Object) (set map[string]bool, unset map[string]bool) {
	set, unset = map[string]bool{}, map[string]bool{}
	for _, g := range fl.GuardsOfNode(n) {
		for _, a := range g.Atoms() {
			x, nonNil, ok := a.NilTest(info)
			if !ok || rootIdent(info, x) != user {
				continue
			}
			s := exprStr(x)
			if i := strings.Index(s, "."); i >= 0 {
				s = s[i+1:]
			}
			if nonNil {
				set[s] = true
			} else {
				unset[s] = true
			}
		}
	}
	return
}

// writesIn lists assignments to fields of target inside fi.
func writesIn(fi *core.FuncInfo, target, user types.Object) []fieldWrite {
	info := fi.Pkg.TypesInfo
	fl := core.NewFlow(fi.Pkg, fi.Decl.Body)
	var out []fieldWrite
	ast.Inspect(fi.Decl.Body, func(n ast.Node) bool {
		as, ok := n.(*ast.AssignStmt)
		if !ok {
			return true
		}
		for _, l := range as.Lhs {
			sel, ok := ast.Unparen(l).(*ast.SelectorExpr)
			if !ok || core.ObjOf(info, sel.X) != target {
				continue
			}
			set, unset := styleGuards(fl, info, as, user)
			w := fieldWrite{field: sel.Sel.Name, node: as}
			// user write: the right-hand side reads the guarded style scalar
			rhs := ""
			for _, r := range as.Rhs {
				rhs += exprStr(r) + " "
			}
			for s := range set {
				if strings.Contains(rhs, user.Name()+"."+s+".") || strings.Contains(rhs, user.Name()+"."+s+")") {
					w.user = true
					w.src = s
				}
			}
			if !w.user {
				for s := range unset {
					w.ifUnset = true
					w.src = s
				}
			}
			out = append(out, w)
		}
		return true
	})
	return out
}

func runC28(c *core.Check) {
	c.Rule("C28.one-to-one", "Shapes[i]/Connections[i] come from Objects[i]/Edges[i]; IDs are AbsIDs")
	c.Rule("C28.user-last", "no default or theme write can be the last writer of a field the user can set, unless guarded by the user value being absent")
	c.Rule("C28.style-coverage", "every d2graph.Style field is read by the exporter")
	ex := mustFunc(c, "d2exporter", "", "Export")
	toShape := mustFunc(c, "d2exporter", "", "toShape")
	toConn := mustFunc(c, "d2exporter", "", "toConnection")
	applyStyles := mustFunc(c, "d2exporter", "", "applyStyles")
	applyTheme := mustFunc(c, "d2exporter", "", "applyTheme")
	if ex == nil || toShape == nil || toConn == nil || applyStyles == nil || applyTheme == nil {
		return
	}
	info := ex.Pkg.TypesInfo
	// (1) loops
	for _, p := range []struct{ dst, src, fn string }{{"Shapes", "Objects", "toShape"}, {"Connections", "Edges", "toConnection"}} {
		okMake, okLoop := false, false
		ast.Inspect(ex.Decl.Body, func(n ast.Node) bool {
			switch s := n.(type) {
			case *ast.AssignStmt:
				if len(s.Lhs) == 1 && exprStr(s.Lhs[0]) == "diagram."+p.dst {
					if call, ok := s.Rhs[0].(*ast.CallExpr); ok && exprStr(call.Fun) == "make" && len(call.Args) == 2 && exprStr(call.Args[1]) == "len(g."+p.src+")" {
						okMake = true
					}
				}
				if len(s.Lhs) == 1 {
					if ix, ok := s.Lhs[0].(*ast.IndexExpr); ok && exprStr(ix.X) == "diagram."+p.dst {
						if call, ok := s.Rhs[0].(*ast.CallExpr); ok && exprStr(call.Fun) == p.fn && len(call.Args) >= 1 {
							if ax, ok := call.Args[0].(*ast.IndexExpr); ok && exprStr(ax.X) == "g."+p.src && exprStr(ax.Index) == exprStr(ix.Index) {
								okLoop = true
							}
						}
					}
				}
			}
			return true
		})
		c.Decide(okMake && okLoop, "C28.one-to-one", "Export:"+p.dst, ex.Decl.Pos(), "diagram."+p.dst+"[i] = "+p.fn+"(g."+p.src+"[i]) over make(…, len(g."+p.src+"))",
			"the exported "+p.dst+" are not built index by index from g."+p.src+": a shape/connection is missing, duplicated or attached to the wrong element")
	}
	idOK := func(fi *core.FuncInfo, field, want string) {
		found := false
		ast.Inspect(fi.Decl.Body, func(n ast.Node) bool {
			as, ok := n.(*ast.AssignStmt)
			if ok && len(as.Lhs) == 1 && strings.HasSuffix(exprStr(as.Lhs[0]), "."+field) && len(as.Rhs) == 1 {
				if exprStr(as.Rhs[0]) == want {
					found = true
				}
			}
			return true
		})
		c.Decide(found, "C28.one-to-one", fname(fi)+":"+field, fi.Decl.Pos(), field+" = "+want, field+" is not set from "+want)
	}
	idOK(toShape, "ID", "obj.AbsID()")
	idOK(toConn, "ID", "edge.AbsID()")
	idOK(toConn, "Src", "edge.Src.AbsID()")
	idOK(toConn, "Dst", "edge.Dst.AbsID()")

	// (2) user-override-last
	param := func(fi *core.FuncInfo, i int) types.Object { return fi.Obj.Type().(*types.Signature).Params().At(i) }
	stylesW := writesIn(applyStyles, param(applyStyles, 0), param(applyStyles, 1))
	userFields := map[string]string{}
	for _, w := range stylesW {
		if w.user {
			userFields[w.field] = w.src
		}
	}
	if len(userFields) < 12 {
		c.Fail("floor", "floor:C28.user-fields", token.NoPos, fmt.Sprintf("only %d user-mapped fields found in applyStyles", len(userFields)))
	}
	// applyStyles itself: non-user writes must be if-unset
	for _, w := range stylesW {
		if !w.user && userFields[w.field] != "" {
			c.Decide(w.ifUnset, "C28.user-last", "applyStyles:"+w.field, w.node.Pos(), "default only when the user value is absent", "applyStyles writes a default to "+w.field+" even when the user set it")
		}
	}
	// applyTheme: unguarded writes to user fields = "theme writes"
	themeW := writesIn(applyTheme, param(applyTheme, 0), param(applyTheme, 1))
	themeFields := map[string]bool{}
	for _, w := range themeW {
		if userFields[w.field] == "" {
			continue
		}
		okGuard := w.ifUnset && w.src == userFields[w.field]
		if !okGuard {
			_ = themeFields // (call sites are judged by the generic helper inlining below)
		}
		c.PassTrivial("C28.user-last", "applyTheme:"+w.field, w.node.Pos(), fmt.Sprintf("guarded-by-unset=%v", okGuard))
	}
	// toShape: after every write to a user field (direct, or through applyTheme), applyStyles must follow on every path
	checkLast := func(fi *core.FuncInfo, target, user types.Object, userFieldsHere map[string]string, inlineUser string) {
		finfo := fi.Pkg.TypesInfo
		fl := core.NewFlow(fi.Pkg, fi.Decl.Body)
		direct := writesIn(fi, target, user)
		// the `<src> != nil` test that guards each user write: reaching the test counts as reaching the user write
		// (its false branch means the user did not set the value, and then the default is what must stay)
		userTests := map[ast.Node]ast.Node{}
		ast.Inspect(fi.Decl.Body, func(n ast.Node) bool {
			is, ok := n.(*ast.IfStmt)
			if !ok {
				return true
			}
			for _, w := range direct {
				if !w.user || w.node.Pos() < is.Body.Pos() || w.node.End() > is.Body.End() {
					continue
				}
				if be, ok := ast.Unparen(is.Cond).(*ast.BinaryExpr); ok && be.Op == token.NEQ && core.IsNil(finfo, be.Y) && strings.HasSuffix(exprStr(be.X), "."+w.src) {
					if userTests[w.node] == nil {
						userTests[w.node] = is.Cond
					}
				}
			}
			return true
		})
		isUserWriteOf := func(field string) core.NodePred {
			return func(n ast.Node) bool {
				if inlineUser != "" {
					if call, ok := n.(*ast.CallExpr); ok && core.IsCallTo(finfo, call, inlineUser) {
						return true
					}
				}
				for _, w := range direct {
					if w.user && w.field == field && (n == w.node || n == userTests[w.node]) {
						return true
					}
				}
				return false
			}
		}
		judge := func(field string, node ast.Node, what string) {
			b, i, ok := fl.Locate(node)
			if !ok {
				return
			}
			last := false
			for _, ex := range fl.Exits() {
				if r, _ := fl.ReachableFromAvoiding(b, i, ex.Blk, ex.Idx, isUserWriteOf(field)); r {
					last = true
				}
			}
			c.Decide(!last, "C28.user-last", fname(fi)+":"+field+":"+what, node.Pos(), "a user write of "+field+" follows on every path",
				fmt.Sprintf("%s can be the last writer of %s: a value the user set with style.%s is overwritten by a default or theme rule", what, field, strings.ToLower(strings.TrimPrefix(userFieldsHere[field], "Style."))))
		}
		for _, w := range direct {
			if w.user || userFieldsHere[w.field] == "" {
				continue
			}
			if w.ifUnset && w.src == userFieldsHere[w.field] {
				c.Pass("C28.user-last", fname(fi)+":"+w.field+":default-if-unset", w.node.Pos(), "guarded by "+w.src+" == nil")
				continue
			}
			judge(w.field, w.node, "default write")
		}
		// every other helper of the package that receives the target: its unguarded writes to user fields count
		// as writes at the call site (one level of inlining), whatever the helper is called
		ast.Inspect(fi.Decl.Body, func(n ast.Node) bool {
			call, ok := n.(*ast.CallExpr)
			if !ok {
				return true
			}
			callee := core.CalleeOf(finfo, call)
			if callee == nil || callee.Pkg() != fi.Pkg.Types || (inlineUser != "" && core.IsCallTo(finfo, call, inlineUser)) {
				return true
			}
			h := c.P.Decl(callee)
			if h == nil || h.Decl.Body == nil {
				return true
			}
			sig := callee.Type().(*types.Signature)
			var ht, hu types.Object
			for ai, a := range call.Args {
				if ai >= sig.Params().Len() {
					break
				}
				switch core.ObjOf(finfo, a) {
				case target:
					ht = sig.Params().At(ai)
				case user:
					hu = sig.Params().At(ai)
				}
			}
			if ht == nil {
				return true
			}
			if hu == nil {
				hu = ht // no user parameter: no write can be guarded by the user's value
			}
			seen := map[string]bool{}
			for _, w := range writesIn(h, ht, hu) {
				if w.user || userFieldsHere[w.field] == "" || seen[w.field] {
					continue
				}
				if w.ifUnset && w.src == userFieldsHere[w.field] {
					continue
				}
				seen[w.field] = true
				judge(w.field, call, callee.Name())
			}
			return true
		})
	}
	var shapeVar types.Object
	ast.Inspect(toShape.Decl.Body, func(n ast.Node) bool {
		if as, ok := n.(*ast.AssignStmt); ok && as.Tok == token.DEFINE && len(as.Lhs) == 1 && exprStr(as.Lhs[0]) == "shape" {
			shapeVar = info.Defs[as.Lhs[0].(*ast.Ident)]
		}
		return true
	})
	if shapeVar == nil {
		c.Broken("toShape: local shape not found")
	} else {
		checkLast(toShape, shapeVar, param(toShape, 0), userFields, "d2exporter.applyStyles")
	}
	var connVar types.Object
	ast.Inspect(toConn.Decl.Body, func(n ast.Node) bool {
		if as, ok := n.(*ast.AssignStmt); ok && as.Tok == token.DEFINE && len(as.Lhs) == 1 && exprStr(as.Lhs[0]) == "connection" {
			connVar = info.Defs[as.Lhs[0].(*ast.Ident)]
		}
		return true
	})
	if connVar == nil {
		c.Broken("toConnection: local connection not found")
	} else {
		connW := writesIn(toConn, connVar, param(toConn, 0))
		connUser := map[string]string{}
		for _, w := range connW {
			if w.user {
				connUser[w.field] = w.src
			}
		}
		if len(connUser) < 8 {
			c.Fail("floor", "floor:C28.conn-user-fields", token.NoPos, fmt.Sprintf("only %d user-mapped connection fields found", len(connUser)))
		}
		checkLast(toConn, connVar, param(toConn, 0), connUser, "")
	}
	c.Floor("C28.user-last", 10)

	// (3) Style field coverage
	if gp := c.P.Pkg("d2graph"); gp != nil {
		if tn, ok := gp.Types.Scope().Lookup("Style").(*types.TypeName); ok {
			st := tn.Type().Underlying().(*types.Struct)
			src := ""
			for _, fi := range c.P.Funcs(ex.Pkg) {
				ast.Inspect(fi.Decl.Body, func(n ast.Node) bool {
					if sel, ok := n.(*ast.SelectorExpr); ok {
						src += exprStr(sel) + "\n"
					}
					return true
				})
			}
			// Style fields that are consumed elsewhere (text styling is read through obj.Text())
			viaText := map[string]bool{"FontSize": true, "Font": true, "Bold": true, "Italic": true, "Underline": true, "TextTransform": true, "Filled": true}
			for i := 0; i < st.NumFields(); i++ {
				f := st.Field(i).Name()
				_ = reflect.TypeOf
				read := strings.Contains(src, "Style."+f)
				if !read && viaText[f] {
					c.Except("C28.style-coverage", "style-field:"+f, st.Field(i).Pos(), "consumed through Object.Text()/arrowhead conversion in d2graph, which the exporter calls")
					continue
				}
				c.Decide(read, "C28.style-coverage", "style-field:"+f, st.Field(i).Pos(), "read by the exporter", "style."+f+" is validated and stored but never exported: the user's value has no effect")
			}
		}
	}
}
