package props

import (
	"fmt"

	"d2verif/internal/core"
)

var dumpers = map[string]func(p *core.Prog){}

// Dump prints engine inventories for review (not a check).
func Dump(what string) {
	p, err := core.Load(core.LoadOpts{Patterns: []string{"./..."}})
	if err != nil {
		fmt.Println(err)
		return
	}
	if d, ok := dumpers[what]; ok {
		d(p)
		return
	}
	switch what {
	case "maporder":
		for _, mr := range mapRangesIn(p, p.RepoPkgs()) {
			fmt.Printf("%-50s %-45s %-13s %s\n", p.Pos(mr.rs.Pos()), fname(mr.fi), mr.class, mr.why)
		}
	}
}

func init() {
	dumpers["globals"] = func(p *core.Prog) {
		var rels []string
		for _, pk := range p.RepoPkgs() {
			rels = append(rels, pk.PkgPath)
		}
		for _, w := range globalWrites(p, rels) {
			fmt.Printf("%-45s %-50s %s.%s  %s\n", p.Pos(w.pos), w.fn.String(), core.RelPkg(w.global.Pkg.Pkg.Path()), w.global.Name(), w.what)
		}
	}
}
