package props

import (
	"fmt"
	"go/types"

	"d2verif/internal/core"
)

var dumpers = map[string]func(p *core.Prog){}

// Dump prints engine inventories for review (not a check).
func Dump(what string) {
	p, err := core.Load(core.LoadOpts{Patterns: []string{"./..."}})
	if err != nil {
		fmt.Println(err)
		return
	}
	if d, ok := dumpers[what]; ok {
		d(p)
		return
	}
	switch what {
	case "maporder":
		for _, mr := range mapRangesIn(p, p.RepoPkgs()) {
			fmt.Printf("%-50s %-45s %-13s %s\n", p.Pos(mr.rs.Pos()), fname(mr.fi), mr.class, mr.why)
		}
	}
}

func init() {
	dumpers["globals"] = func(p *core.Prog) {
		var rels []string
		for _, pk := range p.RepoPkgs() {
			rels = append(rels, pk.PkgPath)
		}
		for _, w := range globalWrites(p, rels) {
			fmt.Printf("%-45s %-50s %s.%s  %s\n", p.Pos(w.pos), w.fn.String(), core.RelPkg(w.global.Pkg.Pkg.Path()), w.global.Name(), w.what)
		}
	}
}

func init() {
	dumpers["nil"] = func(p *core.Prog) {
		safe := map[*types.Func]bool{}
		for _, rel := range []string{"d2ir", "d2compiler", "d2graph", "d2ast"} {
			for f := range nilSafeMethods(p, p.Pkg(rel)) {
				safe[f] = true
			}
		}
		for _, u := range nameNilUses(p, p.Pkg("d2ir")) {
			st := "UNGUARDED"
			if u.ok {
				st = "ok"
			}
			fmt.Printf("NAME %-10s %-34s %-45s %s\n", st, p.Pos(u.node.Pos()), fname(u.fi), u.how)
		}
		for _, rel := range []string{"d2ir", "d2compiler", "d2graph"} {
			pk := p.Pkg(rel)
			for _, u := range nilUsesIn(p, pk, safe) {
				st := "UNGUARDED"
				if u.ok {
					st = "ok"
				}
				fmt.Printf("%-10s %-34s %-45s %-30s %s %s\n", st, p.Pos(u.node.Pos()), fname(u.fi), u.source, u.how, u.idiom)
			}
		}
	}
}

func init() {
	dumpers["strindex"] = func(p *core.Prog) {
		var rels []string
		for _, pk := range p.RepoPkgs() {
			rels = append(rels, pk.PkgPath)
		}
		for _, u := range strIndexUses(p, rels) {
			fmt.Printf("%v %-40s %-50s %s\n", u.ok, p.Pos(u.pos), u.fn.String(), u.detail)
		}
	}
}

func init() {
	dumpers["sealed"] = func(p *core.Prog) {
		for _, rel := range []string{"d2ir", "d2compiler", "d2format", "d2parser", "d2graph", "d2oracle", "d2ast"} {
			for _, ss := range sealedSwitchesIn(p, p.Pkg(rel)) {
				fmt.Printf("%-34s %-45s %-22s default=%-5v late=%v uncovered=%v\n", p.Pos(ss.sw.Pos()), fname(ss.fi), ss.iface.Obj().Name(), ss.hasDefault, ss.lateVars, ss.uncovered)
			}
		}
	}
}
