package core

import (
	"go/ast"
	"go/token"
	"go/types"

	"golang.org/x/tools/go/cfg"
	"golang.org/x/tools/go/packages"
	"golang.org/x/tools/go/types/typeutil"
)

// Flow is a control-flow graph of one function body with node-level queries.
type Flow struct {
	G    *cfg.CFG
	Info *types.Info
	Body *ast.BlockStmt
	// position of every CFG node: block index and index within block
	at     map[ast.Node][2]int
	edgeOK EdgeOK
}

// NewFlow builds the CFG of a function body. Calls to panic, os.Exit, log.Fatal* and
// functions named in noReturn do not return.
func NewFlow(pk *packages.Package, body *ast.BlockStmt) *Flow {
	info := pk.TypesInfo
	mayReturn := func(call *ast.CallExpr) bool {
		if id, ok := call.Fun.(*ast.Ident); ok && id.Name == "panic" {
			if _, isBuiltin := info.Uses[id].(*types.Builtin); isBuiltin {
				return false
			}
		}
		if f, ok := typeutil.Callee(info, call).(*types.Func); ok && f.Pkg() != nil {
			switch f.Pkg().Path() + "." + f.Name() {
			case "os.Exit", "log.Fatal", "log.Fatalf", "log.Fatalln", "runtime.Goexit":
				return false
			}
		}
		return true
	}
	g := cfg.New(body, mayReturn)
	fl := &Flow{G: g, Info: info, Body: body, at: map[ast.Node][2]int{}}
	for _, b := range g.Blocks {
		for i, n := range b.Nodes {
			fl.at[n] = [2]int{int(b.Index), i}
		}
	}
	return fl
}

// Locate returns the CFG node containing pos-bearing node n (the innermost CFG node whose
// extent covers n), as (block, index). ok=false when n is in dead code or in a nested closure.
func (fl *Flow) Locate(n ast.Node) (blk, idx int, ok bool) {
	best := -1
	var bestSpan token.Pos
	for node, at := range fl.at {
		if node.Pos() <= n.Pos() && n.End() <= node.End() {
			span := node.End() - node.Pos()
			if best < 0 || span < bestSpan {
				best = 0
				bestSpan = span
				blk, idx = at[0], at[1]
			}
		}
	}
	if best < 0 {
		return 0, 0, false
	}
	// live?
	if !fl.G.Blocks[blk].Live {
		return blk, idx, false
	}
	// inside a nested function literal? then it does not execute at this point
	inLit := false
	ast.Inspect(fl.G.Blocks[blk].Nodes[idx], func(x ast.Node) bool {
		if l, ok := x.(*ast.FuncLit); ok && l.Body.Pos() <= n.Pos() && n.End() <= l.Body.End() && ast.Node(l) != n {
			inLit = true
			return false
		}
		return true
	})
	if inLit {
		return blk, idx, false
	}
	return blk, idx, true
}

// NodePred selects CFG nodes.
type NodePred func(n ast.Node) bool

// contains reports whether pred holds for n or any sub-node of n, not descending into function
// literals (their bodies execute at another time).
func Contains(n ast.Node, pred NodePred) bool {
	found := false
	ast.Inspect(n, func(x ast.Node) bool {
		if found || x == nil {
			return false
		}
		if _, ok := x.(*ast.FuncLit); ok && x != n {
			return false
		}
		if pred(x) {
			found = true
			return false
		}
		return true
	})
	return found
}

// ReachableAvoiding reports whether target (blk, idx) can be reached from the function entry
// along a path on which no node satisfying barrier (checked on whole CFG nodes, including their
// sub-expressions) is executed strictly before the target node. It returns a witness path of
// block indexes when reachable.
func (fl *Flow) ReachableAvoiding(tblk, tidx int, barrier NodePred) (bool, []int) {
	return fl.reachFrom(0, 0, tblk, tidx, barrier)
}

// ReachableFromAvoiding is ReachableAvoiding from an arbitrary start point (exclusive of the start node itself).
func (fl *Flow) ReachableFromAvoiding(sblk, sidx, tblk, tidx int, barrier NodePred) (bool, []int) {
	return fl.reachFrom(sblk, sidx+1, tblk, tidx, barrier)
}

// EdgeOK filters CFG edges: return false to forbid taking successor #succ of block blk.
type EdgeOK func(blk *cfg.Block, succ int) bool

// ReachableAvoidingEdges is ReachableAvoiding on the sub-graph that keeps only edges accepted by edgeOK.
func (fl *Flow) ReachableAvoidingEdges(tblk, tidx int, barrier NodePred, edgeOK EdgeOK) (bool, []int) {
	fl.edgeOK = edgeOK
	defer func() { fl.edgeOK = nil }()
	return fl.reachFrom(0, 0, tblk, tidx, barrier)
}

// WithEdges runs f with the CFG restricted to the edges accepted by edgeOK.
func (fl *Flow) WithEdges(edgeOK EdgeOK, f func()) {
	fl.edgeOK = edgeOK
	defer func() { fl.edgeOK = nil }()
	f()
}

// CondOf returns the branch condition that ends block b (two successors: [0] true, [1] false), or nil.
func (fl *Flow) CondOf(b *cfg.Block) ast.Expr {
	if len(b.Succs) != 2 || len(b.Nodes) == 0 {
		return nil
	}
	e, _ := b.Nodes[len(b.Nodes)-1].(ast.Expr)
	return e
}

func (fl *Flow) reachFrom(sblk, sidx, tblk, tidx int, barrier NodePred) (bool, []int) {
	type state struct{ blk int }
	// scan a block from index i; returns (hit target, blocked)
	scan := func(b *cfg.Block, from int) (bool, bool) {
		for i := from; i < len(b.Nodes); i++ {
			if int(b.Index) == tblk && i == tidx {
				return true, false
			}
			if Contains(b.Nodes[i], barrier) {
				return false, true
			}
		}
		return false, false
	}
	start := fl.G.Blocks[sblk]
	hit, blocked := scan(start, sidx)
	if hit {
		return true, []int{sblk}
	}
	if blocked {
		return false, nil
	}
	prev := map[int]int{}
	visited := map[int]bool{}
	queue := []int{}
	for si, s := range start.Succs {
		if fl.edgeOK != nil && !fl.edgeOK(start, si) {
			continue
		}
		if !visited[int(s.Index)] {
			visited[int(s.Index)] = true
			prev[int(s.Index)] = sblk
			queue = append(queue, int(s.Index))
		}
	}
	for len(queue) > 0 {
		bi := queue[0]
		queue = queue[1:]
		b := fl.G.Blocks[bi]
		hit, blocked := scan(b, 0)
		if hit {
			path := []int{bi}
			for x := bi; x != sblk; {
				x = prev[x]
				path = append([]int{x}, path...)
				if len(path) > 200 {
					break
				}
			}
			return true, path
		}
		if blocked {
			continue
		}
		for si, s := range b.Succs {
			if fl.edgeOK != nil && !fl.edgeOK(b, si) {
				continue
			}
			if !visited[int(s.Index)] {
				visited[int(s.Index)] = true
				prev[int(s.Index)] = bi
				queue = append(queue, int(s.Index))
			}
		}
	}
	return false, nil
}

// Exits returns the CFG positions of all function exits: return statements and the implicit
// fall-off-the-end (reported with idx = len(nodes), node nil).
type Exit struct {
	Blk, Idx int
	Ret      *ast.ReturnStmt // nil for falling off the end
}

func (fl *Flow) Exits() []Exit {
	var out []Exit
	for _, b := range fl.G.Blocks {
		if !b.Live {
			continue
		}
		isRet := false
		for i, n := range b.Nodes {
			if r, ok := n.(*ast.ReturnStmt); ok {
				out = append(out, Exit{int(b.Index), i, r})
				isRet = true
			}
		}
		if !isRet && len(b.Succs) == 0 {
			// fall off the end, or a no-return call (panic). Distinguish: last node is a call that does not return.
			if len(b.Nodes) > 0 {
				if es, ok := b.Nodes[len(b.Nodes)-1].(*ast.ExprStmt); ok {
					if call, ok := es.X.(*ast.CallExpr); ok {
						if id, ok := call.Fun.(*ast.Ident); ok && id.Name == "panic" {
							continue
						}
					}
				}
			}
			out = append(out, Exit{int(b.Index), len(b.Nodes), nil})
		}
	}
	return out
}

// MustPassBefore reports whether every entry→target path executes a node satisfying pred
// before reaching the target node.
func (fl *Flow) MustPassBefore(tblk, tidx int, pred NodePred) (bool, []int) {
	reach, path := fl.ReachableAvoiding(tblk, tidx, pred)
	return !reach, path
}

// Dominates reports whether CFG node a is executed on every path from entry to node b.
func (fl *Flow) DominatesNode(a, b ast.Node) bool {
	ab, ai, ok1 := fl.Locate(a)
	bb, bi, ok2 := fl.Locate(b)
	if !ok1 || !ok2 {
		return false
	}
	target := fl.G.Blocks[ab].Nodes[ai]
	ok, _ := fl.MustPassBefore(bb, bi, func(n ast.Node) bool { return n == target })
	return ok
}

// CalleeOf resolves the static callee of a call expression (function, method, or nil).
func CalleeOf(info *types.Info, call *ast.CallExpr) *types.Func {
	f, _ := typeutil.Callee(info, call).(*types.Func)
	return f
}

// IsCallTo reports whether n is a call whose resolved callee has the given full name
// (FuncName form, e.g. "d2ir.(*compiler).pushImportStack" or "os.Rename").
func IsCallTo(info *types.Info, n ast.Node, names ...string) bool {
	call, ok := n.(*ast.CallExpr)
	if !ok {
		return false
	}
	f := CalleeOf(info, call)
	if f == nil {
		return false
	}
	fn := FuncName(f)
	for _, nm := range names {
		if fn == nm {
			return true
		}
	}
	return false
}

// Calls lists every call expression in n (optionally including nested function literals).
func Calls(n ast.Node, intoLits bool) []*ast.CallExpr {
	var out []*ast.CallExpr
	ast.Inspect(n, func(x ast.Node) bool {
		if x == nil {
			return false
		}
		if _, ok := x.(*ast.FuncLit); ok && !intoLits && x != n {
			return false
		}
		if c, ok := x.(*ast.CallExpr); ok {
			out = append(out, c)
		}
		return true
	})
	return out
}

// FieldOf resolves a selector expression to the struct field it selects, or nil.
func FieldOf(info *types.Info, e ast.Expr) *types.Var {
	sel, ok := ast.Unparen(e).(*ast.SelectorExpr)
	if !ok {
		return nil
	}
	if s, ok := info.Selections[sel]; ok && s.Kind() == types.FieldVal {
		if v, ok := s.Obj().(*types.Var); ok {
			return v
		}
	}
	return nil
}

// FieldName renders a field as pkg.Type.Field using the struct that declares it when known.
func FieldIs(info *types.Info, e ast.Expr, pkgRel, typeName, field string) bool {
	sel, ok := ast.Unparen(e).(*ast.SelectorExpr)
	if !ok {
		return false
	}
	s, ok := info.Selections[sel]
	if !ok || s.Kind() != types.FieldVal || s.Obj().Name() != field {
		return false
	}
	t := s.Recv()
	for {
		if p, ok := t.Underlying().(*types.Pointer); ok {
			t = p.Elem()
			continue
		}
		if p, ok := t.(*types.Pointer); ok {
			t = p.Elem()
			continue
		}
		break
	}
	// walk embedded path: the declaring struct is the type reached by the index path minus last
	idx := s.Index()
	cur := t
	for i := 0; i < len(idx)-1; i++ {
		st, ok := cur.Underlying().(*types.Struct)
		if !ok {
			return false
		}
		cur = st.Field(idx[i]).Type()
		if p, ok := cur.(*types.Pointer); ok {
			cur = p.Elem()
		}
	}
	nt, ok := cur.(*types.Named)
	if !ok {
		if a, ok2 := cur.(*types.Alias); ok2 {
			nt, ok = types.Unalias(a).(*types.Named)
		}
		if !ok {
			return false
		}
	}
	if nt.Obj().Name() != typeName {
		return false
	}
	if nt.Obj().Pkg() == nil {
		return pkgRel == ""
	}
	return RelPkg(nt.Obj().Pkg().Path()) == pkgRel
}

// Guard is a branch condition that holds on every path reaching a point.
type Guard struct {
	Cond ast.Expr
	True bool // the point is reached only through the condition's true (or false) edge
}

// GuardsOf returns every conditional edge that lies on all entry→(blk) paths: removing the
// edge makes the block unreachable. Conditions of if/for/switch-case tests that go/cfg lowers to
// two-way branches are covered; the result is sound (never reports a guard that a path avoids).
func (fl *Flow) GuardsOf(tblk int) []Guard {
	var out []Guard
	for _, b := range fl.G.Blocks {
		if !b.Live || len(b.Succs) != 2 || len(b.Nodes) == 0 {
			continue
		}
		cond, ok := b.Nodes[len(b.Nodes)-1].(ast.Expr)
		if !ok {
			continue
		}
		for si := 0; si < 2; si++ {
			if b.Succs[0] == b.Succs[1] {
				continue
			}
			if !fl.reachableWithoutEdge(int(b.Index), si, tblk) {
				out = append(out, Guard{Cond: cond, True: si == 0})
			}
		}
	}
	return out
}

func (fl *Flow) reachableWithoutEdge(eb, esi, tblk int) bool {
	if tblk == 0 {
		return true
	}
	visited := map[int]bool{0: true}
	queue := []int{0}
	for len(queue) > 0 {
		bi := queue[0]
		queue = queue[1:]
		b := fl.G.Blocks[bi]
		for si, s := range b.Succs {
			if bi == eb && si == esi {
				continue
			}
			if int(s.Index) == tblk {
				return true
			}
			if !visited[int(s.Index)] {
				visited[int(s.Index)] = true
				queue = append(queue, int(s.Index))
			}
		}
	}
	return false
}

// GuardsOfNode returns the guards of the block containing n, plus the short-circuit guards inside
// the expression that contains n (go/cfg does not split && and ||): in `A && B`, A holds while B is
// evaluated; in `A || B`, A is false while B is evaluated.
func (fl *Flow) GuardsOfNode(n ast.Node) []Guard {
	b, i, ok := fl.Locate(n)
	if !ok {
		return nil
	}
	out := fl.GuardsOf(b)
	root := fl.G.Blocks[b].Nodes[i]
	var stack []ast.Node
	done := false
	ast.Inspect(root, func(x ast.Node) bool {
		if done {
			return false
		}
		if x == nil {
			stack = stack[:len(stack)-1]
			return true
		}
		if _, isLit := x.(*ast.FuncLit); isLit {
			stack = append(stack, x)
			return true
		}
		stack = append(stack, x)
		if x == n {
			for k := len(stack) - 2; k >= 0; k-- {
				if be, ok := stack[k].(*ast.BinaryExpr); ok && (be.Op == token.LAND || be.Op == token.LOR) {
					child := stack[k+1]
					if child.Pos() >= be.Y.Pos() && child.End() <= be.Y.End() {
						out = append(out, Guard{Cond: be.X, True: be.Op == token.LAND})
					}
				}
			}
			done = true
			return false
		}
		return true
	})
	return out
}

// Atoms splits a guard into the atomic conditions it implies: (a && b) true ⇒ a true, b true;
// (a || b) false ⇒ a false, b false; !a flips.
func (g Guard) Atoms() []Guard {
	var out []Guard
	var rec func(e ast.Expr, pol bool)
	rec = func(e ast.Expr, pol bool) {
		e = ast.Unparen(e)
		switch x := e.(type) {
		case *ast.UnaryExpr:
			if x.Op == token.NOT {
				rec(x.X, !pol)
				return
			}
		case *ast.BinaryExpr:
			if (x.Op == token.LAND && pol) || (x.Op == token.LOR && !pol) {
				rec(x.X, pol)
				rec(x.Y, pol)
				return
			}
		}
		out = append(out, Guard{Cond: e, True: pol})
	}
	rec(g.Cond, g.True)
	return out
}

// IsNilTest recognises `x == nil` / `x != nil` and returns x and whether the guard (with its
// polarity) establishes x != nil.
func (g Guard) NilTest(info *types.Info) (x ast.Expr, nonNil bool, ok bool) {
	be, isBin := ast.Unparen(g.Cond).(*ast.BinaryExpr)
	if !isBin || (be.Op != token.EQL && be.Op != token.NEQ) {
		return nil, false, false
	}
	var other ast.Expr
	if isNilIdent(info, be.Y) {
		other = be.X
	} else if isNilIdent(info, be.X) {
		other = be.Y
	} else {
		return nil, false, false
	}
	neq := be.Op == token.NEQ
	return other, neq == g.True, true
}

func isNilIdent(info *types.Info, e ast.Expr) bool {
	id, ok := ast.Unparen(e).(*ast.Ident)
	if !ok {
		return false
	}
	_, isNil := info.Uses[id].(*types.Nil)
	return isNil
}

// IsNil reports whether e is the predeclared nil.
func IsNil(info *types.Info, e ast.Expr) bool { return isNilIdent(info, e) }

// ObjOf returns the object an identifier expression refers to (variable, function…), or nil.
func ObjOf(info *types.Info, e ast.Expr) types.Object {
	switch x := ast.Unparen(e).(type) {
	case *ast.Ident:
		if o := info.Uses[x]; o != nil {
			return o
		}
		return info.Defs[x]
	case *ast.SelectorExpr:
		// qualified identifier pkg.Name
		if id, ok := x.X.(*ast.Ident); ok {
			if _, isPkg := info.Uses[id].(*types.PkgName); isPkg {
				return info.Uses[x.Sel]
			}
		}
	}
	return nil
}
