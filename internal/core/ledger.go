package core

import (
	"encoding/json"
	"fmt"
	"go/token"
	"os"
	"path/filepath"
	"sort"
	"strings"
	"time"
)

// VerifDir is where tables, known findings and evidence live.
var VerifDir = envOr("D2VERIF_HOME", "/verif")

// Status of an obligation.
type Status string

const (
	OK       Status = "discharged"
	Excepted Status = "excepted"
	Violated Status = "violated"
)

// Obligation is one decided rule instance.
type Obligation struct {
	Rule    string `json:"rule"`
	Key     string `json:"key"` // stable: rule + resolved construct, never a line number
	Where   string `json:"where"`
	Func    string `json:"func,omitempty"`
	Status  Status `json:"status"`
	How     string `json:"how,omitempty"`    // discharge idiom / exception reason
	Detail  string `json:"detail,omitempty"` // why undischarged, path, suggestion
	Trivial bool   `json:"-"`
}

// Check accumulates what one property run decided.
type Check struct {
	ID    string
	Tier  string
	Seed  int
	P     *Prog
	Obs   []*Obligation
	Notes []string
	Count map[string]int
	Rules map[string]string // rule id -> rule text
	Trust []string
	NotCovered string
	Explanation string
	start time.Time
	broken []string
	ordinals map[string]int
}

func NewCheck(id, tier string, seed int) *Check {
	return &Check{ID: id, Tier: tier, Seed: seed, Count: map[string]int{}, Rules: map[string]string{}, start: time.Now(), ordinals: map[string]int{}}
}

// Rule registers the text of a rule (reported in evidence).
func (c *Check) Rule(id, text string) { c.Rules[id] = text }

func (c *Check) Note(format string, a ...any) { c.Notes = append(c.Notes, fmt.Sprintf(format, a...)) }

// Broken records an infrastructure failure (unresolved anchor, vacuous rule, load error):
// the check fails, since an undecided property is not a held property.
func (c *Check) Broken(format string, a ...any) {
	c.broken = append(c.broken, fmt.Sprintf(format, a...))
}

// BrokenList returns the infrastructure failures recorded so far.
func (c *Check) BrokenList() []string { return c.broken }

func (c *Check) add(o *Obligation) *Obligation {
	// ordinal among identical keys keeps keys unique and line-free
	n := c.ordinals[o.Rule+"|"+o.Key]
	c.ordinals[o.Rule+"|"+o.Key] = n + 1
	if n > 0 {
		o.Key = fmt.Sprintf("%s#%d", o.Key, n+1)
	}
	c.Obs = append(c.Obs, o)
	c.Count[o.Rule]++
	return o
}

func (c *Check) where(pos token.Pos) string {
	if c.P == nil {
		return "-"
	}
	return c.P.Pos(pos)
}

// Pass records a discharged obligation.
func (c *Check) Pass(rule, key string, pos token.Pos, how string) *Obligation {
	return c.add(&Obligation{Rule: rule, Key: key, Where: c.where(pos), Status: OK, How: how})
}

// PassTrivial records a discharged obligation that needed no reasoning (not counted as nontrivial).
func (c *Check) PassTrivial(rule, key string, pos token.Pos, how string) *Obligation {
	return c.add(&Obligation{Rule: rule, Key: key, Where: c.where(pos), Status: OK, How: how, Trivial: true})
}

// Except records an obligation accepted for a reviewed reason.
func (c *Check) Except(rule, key string, pos token.Pos, reason string) *Obligation {
	return c.add(&Obligation{Rule: rule, Key: key, Where: c.where(pos), Status: Excepted, How: reason})
}

// Fail records a violated (or undecided) obligation.
func (c *Check) Fail(rule, key string, pos token.Pos, detail string) *Obligation {
	return c.add(&Obligation{Rule: rule, Key: key, Where: c.where(pos), Status: Violated, Detail: detail})
}

// Decide records pass or fail.
func (c *Check) Decide(ok bool, rule, key string, pos token.Pos, how, detail string) *Obligation {
	if ok {
		return c.Pass(rule, key, pos, how)
	}
	return c.Fail(rule, key, pos, detail)
}

// Floor fails the check when a rule matched fewer instances than confirmed by hand: a rule that
// matches nothing passes vacuously forever.
func (c *Check) Floor(rule string, min int) {
	if c.Count[rule] < min {
		c.Fail("floor", "floor:"+rule, token.NoPos, fmt.Sprintf("rule %s matched %d instances, at least %d were confirmed by reading; the rule's slots no longer resolve (undecided = failed)", rule, c.Count[rule], min))
	} else {
		c.PassTrivial("floor", "floor:"+rule, token.NoPos, fmt.Sprintf("%d >= %d instances", c.Count[rule], min))
	}
}

// ---------------------------------------------------------------------------------------------

// Finding is an entry of known_findings.json.
type Finding struct {
	Property string `json:"property"`
	Key      string `json:"key"`
	What     string `json:"what"`
	Status   string `json:"status"` // "open" or "fixed"
	Commit   string `json:"commit,omitempty"`
	Input    string `json:"input,omitempty"`
}

func loadFindings() ([]Finding, error) {
	b, err := os.ReadFile(filepath.Join(VerifDir, "known_findings.json"))
	if err != nil {
		if os.IsNotExist(err) {
			return nil, nil
		}
		return nil, err
	}
	var f struct {
		Findings []Finding `json:"findings"`
	}
	if err := json.Unmarshal(b, &f); err != nil {
		return nil, err
	}
	return f.Findings, nil
}

// Finish prints the verdict lines, writes evidence and replay files, and returns the exit code.
func (c *Check) Finish() int {
	wall := time.Since(c.start).Seconds()
	findings, ferr := loadFindings()
	if ferr != nil {
		c.Broken("known_findings.json unreadable: %v", ferr)
	}
	open := map[string]Finding{}
	for _, f := range findings {
		if f.Property == c.ID && f.Status == "open" {
			open[f.Key] = f
		}
	}
	sort.SliceStable(c.Obs, func(i, j int) bool { return false })
	vioDir := filepath.Join(VerifDir, "evidence", "violations")
	os.MkdirAll(vioDir, 0o755)
	old, _ := filepath.Glob(filepath.Join(vioDir, c.ID+"-*.json"))
	for _, f := range old {
		os.Remove(f)
	}
	nviol, nknown, nexc, nontrivial := 0, 0, 0, 0
	distinct := map[string]bool{}
	var lines []string
	for _, o := range c.Obs {
		switch o.Status {
		case Violated:
			if f, ok := open[o.Key]; ok {
				nknown++
				lines = append(lines, fmt.Sprintf("KNOWN-FINDING: property=%s %s [%s at %s]", c.ID, f.What, o.Key, o.Where))
				continue
			}
			nviol++
			path := filepath.Join(vioDir, fmt.Sprintf("%s-%04d.json", c.ID, nviol))
			b, _ := json.MarshalIndent(map[string]any{"property": c.ID, "rule": o.Rule, "rule_text": c.Rules[o.Rule], "key": o.Key, "where": o.Where, "detail": o.Detail}, "", " ")
			os.WriteFile(path, b, 0o644)
			fmt.Printf("  %s: [%s] %s\n    %s\n", o.Where, o.Rule, o.Key, o.Detail)
			lines = append(lines, fmt.Sprintf("VIOLATION property=%s replay=%s", c.ID, path))
		case Excepted:
			nexc++
		}
		if !o.Trivial && !distinct[o.Rule+"|"+o.Key] {
			distinct[o.Rule+"|"+o.Key] = true
			nontrivial++
		}
	}
	if os.Getenv("D2VERIF_LIST") != "" {
		for _, o := range c.Obs {
			fmt.Printf("  LIST %-10s %-40s [%s] %s :: %s%s\n", o.Status, o.Where, o.Rule, o.Key, o.How, o.Detail)
		}
	}
	for i, b := range c.broken {
		nviol++
		path := filepath.Join(vioDir, fmt.Sprintf("%s-broken-%02d.json", c.ID, i+1))
		bb, _ := json.MarshalIndent(map[string]any{"property": c.ID, "rule": "infrastructure", "detail": b}, "", " ")
		os.WriteFile(path, bb, 0o644)
		fmt.Printf("  UNDECIDED: %s\n", b)
		lines = append(lines, fmt.Sprintf("VIOLATION property=%s replay=%s", c.ID, path))
	}
	// stale known findings are reported, never a failure
	seen := map[string]bool{}
	for _, o := range c.Obs {
		if o.Status == Violated {
			seen[o.Key] = true
		}
	}
	var stale []string
	for k := range open {
		if !seen[k] {
			stale = append(stale, k)
		}
	}
	sort.Strings(stale)

	// evidence
	type sample = map[string]any
	var samples []sample
	perRule := map[string]int{}
	for _, o := range c.Obs {
		if o.Trivial {
			continue
		}
		if perRule[o.Rule] >= 4 && o.Status == OK {
			continue
		}
		perRule[o.Rule]++
		s := sample{"rule": o.Rule, "key": o.Key, "where": o.Where, "status": o.Status}
		if o.How != "" {
			s["how"] = o.How
		}
		if o.Detail != "" {
			s["detail"] = o.Detail
		}
		samples = append(samples, s)
		if len(samples) >= 60 {
			break
		}
	}
	if len(samples) == 0 {
		samples = append(samples, sample{"note": "no obligations"})
	}
	ruleTexts := []string{}
	var rids []string
	for id := range c.Rules {
		rids = append(rids, id)
	}
	sort.Strings(rids)
	for _, id := range rids {
		ruleTexts = append(ruleTexts, fmt.Sprintf("%s (%d instances): %s", id, c.Count[id], c.Rules[id]))
	}
	cov := map[string]any{
		"explanation":         c.Explanation,
		"evaluations":         len(c.Obs),
		"distinct_nontrivial": nontrivial,
		"rule":                "static analysis of /repo's current source; each evaluation is one rule instance (obligation) keyed by rule+resolved construct; non-trivial = needed a discharge idiom, a table comparison or a reviewed exception (floors and bookkeeping are trivial). Rules: " + strings.Join(ruleTexts, " | "),
		"samples":             samples,
		"obligations":         len(c.Obs),
		"discharged":          len(c.Obs) - nviol - nknown,
		"excepted":            nexc,
		"known_findings_hit":  nknown,
		"stale_known_findings": stale,
		"per_rule":            c.Count,
		"exhaustive":          true,
		"not_covered":         c.NotCovered,
		"notes":               c.Notes,
		"trusted_base":        append([]string{}, c.Trust...),
	}
	ev := map[string]any{
		"property_id": c.ID,
		"tier":        c.Tier,
		"seed":        c.Seed,
		"level":       "other",
		"coverage":    cov,
		"assumptions": append([]string{"go/types and go/ssa (x/tools v0.29.0) model the program faithfully", "dependencies outside the repository module are type-checked, not analysed"}, c.Trust...),
		"wall_s":      wall,
		"violations":  nviol,
	}
	b, _ := json.MarshalIndent(ev, "", " ")
	os.MkdirAll(filepath.Join(VerifDir, "evidence"), 0o755)
	if err := os.WriteFile(filepath.Join(VerifDir, "evidence", c.ID+".json"), append(b, '\n'), 0o644); err != nil {
		fmt.Printf("cannot write evidence: %v\n", err)
		return 2
	}
	for _, l := range lines {
		fmt.Println(l)
	}
	fmt.Printf("%s %s: %d obligations, %d violated, %d known findings, %d excepted, %.1fs\n", c.ID, c.Tier, len(c.Obs), nviol, nknown, nexc, wall)
	if nviol > 0 {
		return 1
	}
	return 0
}

// NewSubCheck creates a scratch check over the same program; its obligations can be adopted by the parent
// under another rule (a property reusing a clause of another property).
func NewSubCheck(parent *Check) *Check {
	s := NewCheck(parent.ID, parent.Tier, parent.Seed)
	s.P = parent.P
	return s
}

// Obligations lists what the check decided so far.
func (c *Check) Obligations() []*Obligation { return c.Obs }

// Adopt copies an obligation of a sub-check under the given rule of this check.
func (c *Check) Adopt(rule string, o *Obligation) *Obligation {
	cp := *o
	cp.Rule = rule
	return c.add(&cp)
}
