// Package core holds the shared infrastructure (E0): loading /repo's current working tree,
// the obligation ledger, known findings, and evidence output.
package core

import (
	"fmt"
	"go/ast"
	"go/token"
	"go/types"
	"os"
	"sort"
	"strings"
	"sync"

	"golang.org/x/tools/go/packages"
	"golang.org/x/tools/go/ssa"
	"golang.org/x/tools/go/ssa/ssautil"
)

// RepoDir is the tree under analysis. It is read on every run.
var RepoDir = envOr("D2VERIF_REPO", "/repo")

// Mod is the module path of the repository under analysis.
const Mod = "oss.terrastruct.com/d2"

func envOr(k, d string) string {
	if v := os.Getenv(k); v != "" {
		return v
	}
	return d
}

// Prog is a loaded, type-checked view of (part of) the repository.
type Prog struct {
	Fset  *token.FileSet
	Roots []*packages.Package
	ByPath map[string]*packages.Package // every package that has syntax
	AllSyntax bool

	ssaOnce sync.Once
	SSAProg *ssa.Program
	ssaPkgs map[string]*ssa.Package

	declOnce sync.Once
	decls    map[*types.Func]*FuncInfo
	parentOnce sync.Once
}

// FuncInfo ties a declared function to its syntax and package.
type FuncInfo struct {
	Obj  *types.Func
	Decl *ast.FuncDecl
	Pkg  *packages.Package
}

// LoadOpts selects what to load.
type LoadOpts struct {
	Dir      string            // default RepoDir
	Patterns []string          // default ./...
	All      bool              // syntax for dependencies too (needed for whole-program SSA)
	Overlay  map[string][]byte // in-memory file replacements (mutant self-tests)
	Env      []string          // extra environment (GOOS=js ...)
	MinRoots int               // fail if fewer root packages load
	Tests    bool
}

// Load type-checks the requested packages from the current source on disk.
func Load(o LoadOpts) (*Prog, error) {
	if o.Dir == "" {
		o.Dir = RepoDir
	}
	if len(o.Patterns) == 0 {
		o.Patterns = []string{"./..."}
	}
	mode := packages.NeedName | packages.NeedFiles | packages.NeedCompiledGoFiles | packages.NeedImports |
		packages.NeedTypes | packages.NeedTypesSizes | packages.NeedSyntax | packages.NeedTypesInfo | packages.NeedModule
	if o.All {
		mode |= packages.NeedDeps
	}
	env := append(os.Environ(), "GOFLAGS=-mod=mod", "GOPROXY=off", "GOWORK=off")
	env = append(env, o.Env...)
	fset := token.NewFileSet()
	cfg := &packages.Config{Mode: mode, Dir: o.Dir, Fset: fset, Env: env, Overlay: o.Overlay, Tests: o.Tests}
	if !o.All {
		// Only parse function bodies of the root packages: dependencies are type-checked from
		// export data or from declarations only. go/packages decides; we simply do not walk them.
	}
	pkgs, err := packages.Load(cfg, o.Patterns...)
	if err != nil {
		return nil, fmt.Errorf("load %v: %w", o.Patterns, err)
	}
	p := &Prog{Fset: fset, Roots: pkgs, ByPath: map[string]*packages.Package{}, AllSyntax: o.All}
	var errs []string
	packages.Visit(pkgs, nil, func(pk *packages.Package) {
		for _, e := range pk.Errors {
			errs = append(errs, pk.PkgPath+": "+e.Error())
		}
		if len(pk.Syntax) > 0 {
			p.ByPath[pk.PkgPath] = pk
		}
	})
	if len(errs) > 0 {
		sort.Strings(errs)
		if len(errs) > 10 {
			errs = errs[:10]
		}
		return nil, fmt.Errorf("type-check errors (the tree must compile): %s", strings.Join(errs, "; "))
	}
	if len(pkgs) < o.MinRoots || len(pkgs) == 0 {
		return nil, fmt.Errorf("loaded %d root packages for %v, expected at least %d", len(pkgs), o.Patterns, o.MinRoots)
	}
	return p, nil
}

// Pkg returns the package with the given path relative to the module ("d2ir") or absolute.
func (p *Prog) Pkg(rel string) *packages.Package {
	if pk, ok := p.ByPath[rel]; ok {
		return pk
	}
	if pk, ok := p.ByPath[Mod+"/"+rel]; ok {
		return pk
	}
	if rel == "" || rel == "." {
		return p.ByPath[Mod]
	}
	return nil
}

// RepoPkgs returns the loaded packages that belong to the repository module, sorted by path.
func (p *Prog) RepoPkgs() []*packages.Package {
	var out []*packages.Package
	for path, pk := range p.ByPath {
		if path == Mod || strings.HasPrefix(path, Mod+"/") {
			out = append(out, pk)
		}
	}
	sort.Slice(out, func(i, j int) bool { return out[i].PkgPath < out[j].PkgPath })
	return out
}

func (p *Prog) buildDecls() {
	p.declOnce.Do(func() {
		p.decls = map[*types.Func]*FuncInfo{}
		for _, pk := range p.ByPath {
			for _, f := range pk.Syntax {
				for _, d := range f.Decls {
					fd, ok := d.(*ast.FuncDecl)
					if !ok {
						continue
					}
					if obj, ok := pk.TypesInfo.Defs[fd.Name].(*types.Func); ok {
						p.decls[obj] = &FuncInfo{Obj: obj, Decl: fd, Pkg: pk}
					}
				}
			}
		}
	})
}

// Decl returns the syntax of a function object, or nil when it has no loaded body.
func (p *Prog) Decl(obj *types.Func) *FuncInfo {
	p.buildDecls()
	if obj == nil {
		return nil
	}
	return p.decls[obj.Origin()]
}

// Funcs returns every declared function of a package, sorted by position.
func (p *Prog) Funcs(pk *packages.Package) []*FuncInfo {
	p.buildDecls()
	var out []*FuncInfo
	for _, fi := range p.decls {
		if fi.Pkg == pk && fi.Decl.Body != nil {
			out = append(out, fi)
		}
	}
	sort.Slice(out, func(i, j int) bool { return out[i].Decl.Pos() < out[j].Decl.Pos() })
	return out
}

// Func finds a function or method by package (relative path), receiver type name ("" for
// functions) and name. It returns nil when absent.
func (p *Prog) Func(pkgRel, recv, name string) *FuncInfo {
	pk := p.Pkg(pkgRel)
	if pk == nil {
		return nil
	}
	p.buildDecls()
	if recv == "" {
		if obj, ok := pk.Types.Scope().Lookup(name).(*types.Func); ok {
			return p.decls[obj]
		}
		return nil
	}
	tn, ok := pk.Types.Scope().Lookup(recv).(*types.TypeName)
	if !ok {
		return nil
	}
	for _, t := range []types.Type{tn.Type(), types.NewPointer(tn.Type())} {
		ms := types.NewMethodSet(t)
		for i := 0; i < ms.Len(); i++ {
			if f, ok := ms.At(i).Obj().(*types.Func); ok && f.Name() == name && f.Pkg() == pk.Types {
				if fi := p.decls[f]; fi != nil {
					return fi
				}
			}
		}
	}
	return nil
}

// FuncName renders pkg.(*T).m / pkg.f with the package path relative to the module.
func FuncName(f *types.Func) string {
	if f == nil {
		return "<nil>"
	}
	pkg := ""
	if f.Pkg() != nil {
		pkg = RelPkg(f.Pkg().Path())
	}
	sig, _ := f.Type().(*types.Signature)
	if sig != nil && sig.Recv() != nil {
		t := sig.Recv().Type()
		ptr := ""
		if pt, ok := t.(*types.Pointer); ok {
			t = pt.Elem()
			ptr = "*"
		}
		name := types.TypeString(t, func(*types.Package) string { return "" })
		if i := strings.Index(name, "["); i >= 0 {
			name = name[:i]
		}
		return fmt.Sprintf("%s.(%s%s).%s", pkg, ptr, name, f.Name())
	}
	return pkg + "." + f.Name()
}

// RelPkg strips the module prefix.
func RelPkg(path string) string {
	if path == Mod {
		return "."
	}
	return strings.TrimPrefix(path, Mod+"/")
}

// Pos renders a position relative to the repository root.
func (p *Prog) Pos(pos token.Pos) string {
	if !pos.IsValid() {
		return "-"
	}
	ps := p.Fset.Position(pos)
	f := strings.TrimPrefix(ps.Filename, RepoDir+"/")
	return fmt.Sprintf("%s:%d", f, ps.Line)
}

// SSA builds (once) the SSA form of every package that has syntax.
func (p *Prog) SSA() *ssa.Program {
	p.ssaOnce.Do(func() {
		var initial []*packages.Package
		if p.AllSyntax {
			initial = p.Roots
		} else {
			initial = p.Roots
		}
		var prog *ssa.Program
		var pkgs []*ssa.Package
		mode := ssa.InstantiateGenerics
		if p.AllSyntax {
			prog, pkgs = ssautil.AllPackages(initial, mode)
		} else {
			prog, pkgs = ssautil.Packages(initial, mode)
		}
		_ = pkgs
		prog.Build()
		p.SSAProg = prog
		p.ssaPkgs = map[string]*ssa.Package{}
		for _, sp := range prog.AllPackages() {
			p.ssaPkgs[sp.Pkg.Path()] = sp
		}
	})
	return p.SSAProg
}

// SSAPkg returns the SSA package for a module-relative path.
func (p *Prog) SSAPkg(rel string) *ssa.Package {
	p.SSA()
	if sp, ok := p.ssaPkgs[rel]; ok {
		return sp
	}
	return p.ssaPkgs[Mod+"/"+rel]
}

// SSAFunc returns the SSA function for a declared function.
func (p *Prog) SSAFunc(fi *FuncInfo) *ssa.Function {
	if fi == nil {
		return nil
	}
	return p.SSA().FuncValue(fi.Obj)
}

// SrcFuncs lists all SSA functions (including anonymous ones) with source in a package.
func (p *Prog) SrcFuncs(rel string) []*ssa.Function {
	sp := p.SSAPkg(rel)
	if sp == nil {
		return nil
	}
	var out []*ssa.Function
	var add func(f *ssa.Function)
	add = func(f *ssa.Function) {
		if f == nil || f.Blocks == nil {
			return
		}
		out = append(out, f)
		for _, a := range f.AnonFuncs {
			add(a)
		}
	}
	for _, m := range sp.Members {
		switch m := m.(type) {
		case *ssa.Function:
			add(m)
		case *ssa.Type:
			for _, t := range []types.Type{m.Type(), types.NewPointer(m.Type())} {
				ms := p.SSAProg.MethodSets.MethodSet(t)
				for i := 0; i < ms.Len(); i++ {
					fn := p.SSAProg.MethodValue(ms.At(i))
					if fn != nil && fn.Pkg == sp && fn.Synthetic == "" {
						add(fn)
					}
				}
			}
		}
	}
	// de-duplicate (methods appear in both method sets)
	seen := map[*ssa.Function]bool{}
	var uniq []*ssa.Function
	for _, f := range out {
		if !seen[f] {
			seen[f] = true
			uniq = append(uniq, f)
		}
	}
	sort.Slice(uniq, func(i, j int) bool {
		if uniq[i].Pos() != uniq[j].Pos() {
			return uniq[i].Pos() < uniq[j].Pos()
		}
		return uniq[i].String() < uniq[j].String()
	})
	return uniq
}
