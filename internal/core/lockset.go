package core

import (
	"go/ast"
	"go/types"

	"golang.org/x/tools/go/packages"
)

// LockKey identifies a mutex: the struct field or variable holding it (instances are not
// distinguished: one lock object per field, which is how this repository uses them).
type LockKey = types.Object

// LockSet is a set of held locks.
type LockSet map[LockKey]bool

func (s LockSet) clone() LockSet {
	o := LockSet{}
	for k := range s {
		o[k] = true
	}
	return o
}

func intersect(a, b LockSet) LockSet {
	o := LockSet{}
	for k := range a {
		if b[k] {
			o[k] = true
		}
	}
	return o
}

func equalSets(a, b LockSet) bool {
	if len(a) != len(b) {
		return false
	}
	for k := range a {
		if !b[k] {
			return false
		}
	}
	return true
}

// lockOp classifies a call as Lock/Unlock on a sync.Mutex / sync.RWMutex and returns the key.
func lockOp(info *types.Info, call *ast.CallExpr) (key LockKey, acquire, release bool) {
	sel, ok := call.Fun.(*ast.SelectorExpr)
	if !ok {
		return nil, false, false
	}
	f := CalleeOf(info, call)
	if f == nil || f.Pkg() == nil || f.Pkg().Path() != "sync" {
		return nil, false, false
	}
	switch FuncName(f) {
	case "sync.(*Mutex).Lock", "sync.(*RWMutex).Lock", "sync.(*RWMutex).RLock":
		acquire = true
	case "sync.(*Mutex).Unlock", "sync.(*RWMutex).Unlock", "sync.(*RWMutex).RUnlock":
		release = true
	default:
		return nil, false, false
	}
	x := ast.Unparen(sel.X)
	if fv := FieldOf(info, x); fv != nil {
		return fv, acquire, release
	}
	if o := ObjOf(info, x); o != nil {
		return o, acquire, release
	}
	return nil, false, false
}

// BodyLocks holds, for one function-like body, the must-hold lockset before each CFG node.
type BodyLocks struct {
	Flow   *Flow
	Before map[ast.Node]LockSet
	Entry  LockSet
}

// ComputeLocks runs the forward must-lockset dataflow over one body. `defer mu.Unlock()` keeps
// the lock held to the exit. Nested function literals are not entered (they run at another time).
func ComputeLocks(pk *packages.Package, body *ast.BlockStmt, entry LockSet) *BodyLocks {
	fl := NewFlow(pk, body)
	info := pk.TypesInfo
	n := len(fl.G.Blocks)
	in := make([]LockSet, n)
	out := make([]LockSet, n)
	known := make([]bool, n)
	bl := &BodyLocks{Flow: fl, Before: map[ast.Node]LockSet{}, Entry: entry}
	transfer := func(bi int, s LockSet, record bool) LockSet {
		cur := s.clone()
		for _, node := range fl.G.Blocks[bi].Nodes {
			if record {
				bl.Before[node] = cur.clone()
			}
			if _, isDefer := node.(*ast.DeferStmt); isDefer {
				continue
			}
			if _, isGo := node.(*ast.GoStmt); isGo {
				continue
			}
			for _, call := range Calls(node, false) {
				if k, acq, rel := lockOp(info, call); k != nil {
					if acq {
						cur[k] = true
					}
					if rel {
						delete(cur, k)
					}
				}
			}
		}
		return cur
	}
	if n == 0 {
		return bl
	}
	in[0] = entry.clone()
	known[0] = true
	work := []int{0}
	preds := make([][]int, n)
	for _, b := range fl.G.Blocks {
		for _, s := range b.Succs {
			preds[s.Index] = append(preds[s.Index], int(b.Index))
		}
	}
	for len(work) > 0 {
		bi := work[0]
		work = work[1:]
		o := transfer(bi, in[bi], false)
		if out[bi] != nil && equalSets(out[bi], o) {
			continue
		}
		out[bi] = o
		for _, s := range fl.G.Blocks[bi].Succs {
			si := int(s.Index)
			var ni LockSet
			first := true
			for _, p := range preds[si] {
				if out[p] == nil {
					continue
				}
				if first {
					ni = out[p].clone()
					first = false
				} else {
					ni = intersect(ni, out[p])
				}
			}
			if si == 0 {
				ni = intersect(ni, entry)
			}
			if !known[si] || !equalSets(in[si], ni) {
				in[si] = ni
				known[si] = true
				work = append(work, si)
			}
		}
	}
	for bi := range fl.G.Blocks {
		if known[bi] {
			transfer(bi, in[bi], true)
		}
	}
	return bl
}

// HeldAt returns the lockset before the CFG node containing n (nil when n is unreachable).
func (bl *BodyLocks) HeldAt(n ast.Node) (LockSet, bool) {
	b, i, ok := bl.Flow.Locate(n)
	if !ok {
		return nil, false
	}
	node := bl.Flow.G.Blocks[b].Nodes[i]
	s, ok := bl.Before[node]
	return s, ok
}

// Bodies lists the function-like bodies inside a declaration: the declaration's own body and
// every function literal, each paired with how it is started.
type Body struct {
	Block *ast.BlockStmt
	Lit   *ast.FuncLit // nil for the declaration body
	Kind  string       // "decl", "go", "defer", "value"
}

func BodiesOf(decl *ast.FuncDecl) []Body {
	out := []Body{{Block: decl.Body, Kind: "decl"}}
	kinds := map[*ast.FuncLit]string{}
	ast.Inspect(decl.Body, func(n ast.Node) bool {
		switch s := n.(type) {
		case *ast.GoStmt:
			if l, ok := s.Call.Fun.(*ast.FuncLit); ok {
				kinds[l] = "go"
			}
		case *ast.DeferStmt:
			if l, ok := s.Call.Fun.(*ast.FuncLit); ok {
				kinds[l] = "defer"
			}
		case *ast.CallExpr:
			// g.Go(func() error { … }) — errgroup-style spawn: the literal runs on its own goroutine
			if sel, ok := s.Fun.(*ast.SelectorExpr); ok && sel.Sel.Name == "Go" && len(s.Args) == 1 {
				if l, ok := s.Args[0].(*ast.FuncLit); ok {
					kinds[l] = "go"
				}
			}
		case *ast.FuncLit:
			k := kinds[s]
			if k == "" {
				k = "value"
			}
			out = append(out, Body{Block: s.Body, Lit: s, Kind: k})
		}
		return true
	})
	return out
}

// InnermostBody returns the index (into bodies) of the innermost body containing n.
func InnermostBody(bodies []Body, n ast.Node) int {
	best := -1
	for i, b := range bodies {
		if b.Block.Pos() <= n.Pos() && n.End() <= b.Block.End() {
			if best < 0 || (b.Block.End()-b.Block.Pos()) < (bodies[best].Block.End()-bodies[best].Block.Pos()) {
				best = i
			}
		}
	}
	return best
}
